(* BlockNominal.v - refinement: with a nominally behaving platform the
   instrumented buffer-level model of lltdBlock.c (model/Block.v) computes
   exactly the pure functions of model/BlockFun.v - same new state, same port
   calls in the same order, every transient buffer released - for every state,
   every frame and every MTU in range. *)
From LLTD Require Import BlockFun BufProofs.
From Coq Require Import Lia ZifyBool ZifyN ZifyNat.
Ltac Zify.zify_post_hook ::= Z.div_mod_to_equations.
Local Open Scope N_scope.

(* ---------- world updates ---------- *)
Definition wal (n : N) (w : world) : world :=
  {| w_trace := w_trace w; w_live := S (w_live w); w_bytes := w_bytes w + n;
     w_allocs := w_allocs w + 1; w_sends := w_sends w; w_now := w_now w |}.
Definition wfr (n : N) (w : world) : world :=
  {| w_trace := w_trace w; w_live := pred (w_live w); w_bytes := w_bytes w - n;
     w_allocs := w_allocs w; w_sends := w_sends w; w_now := w_now w |}.
Definition wact (a : action) (w : world) : world :=
  {| w_trace := a :: w_trace w; w_live := w_live w; w_bytes := w_bytes w;
     w_allocs := w_allocs w; w_sends := w_sends w; w_now := w_now w |}.
Definition wsend (a : action) (w : world) : world :=
  {| w_trace := a :: w_trace w; w_live := w_live w; w_bytes := w_bytes w;
     w_allocs := w_allocs w; w_sends := w_sends w + 1; w_now := w_now w |}.

Lemma alloc_nf n w : alloc no_fail n w = Ok true (wal n w).
Proof. reflexivity. Qed.
Lemma free_ok n w : (0 < w_live w)%nat -> n <= w_bytes w -> free n w = Ok tt (wfr n w).
Proof. intros H1 H2. unfold free, wfr. destruct (w_live w); [lia|]. destruct (w_bytes w <? n) eqn:E; [lia|]. reflexivity. Qed.
Lemma free_wal n w : free n (wal n w) = Ok tt (wfr n (wal n w)).
Proof. apply free_ok; cbn; lia. Qed.
Lemma send_nf ctx buf len w : (len <= length buf)%nat ->
  send no_fail ctx buf len w = Ok true (wsend (Send ctx true (firstn len buf)) w).
Proof. intros H. unfold send. destruct (Nat.leb_spec len (length buf)); [reflexivity|lia]. Qed.
Lemma act_eq a w : act a w = Ok tt (wact a w). Proof. reflexivity. Qed.

Lemma firstn_app_exact {A} (a b : list A) : firstn (length a) (a ++ b) = a.
Proof. rewrite firstn_app, Nat.sub_diag, firstn_all. cbn. apply app_nil_r. Qed.

(* how a finished handler relates the two worlds *)
Definition same_ledger (w w' : world) : Prop := w_live w' = w_live w /\ w_bytes w' = w_bytes w /\ w_now w' = w_now w.
Lemma wfr_wal_ledger n w : w_live (wfr n (wal n w)) = w_live w /\ w_bytes (wfr n (wal n w)) = w_bytes w.
Proof. cbn. split; lia. Qed.

Section Nominal.
  Variable junk ctx : N.
  Variable c : pcfg.
  Variable g : gcfg.
  Variable mtu : N.
  Hypothesis Hmtu : c_mtu c = Some mtu.
  Hypothesis Hmin : 206 <= mtu.        (* the largest Hello fits *)
  Hypothesis Hmax : mtu <= 65535.

  Notation NF := no_fail.
  Lemma mtu_def : mtu_or_default c = mtu.
  Proof. unfold mtu_or_default. rewrite Hmtu. destruct (mtu =? 0) eqn:E; [lia|reflexivity]. Qed.
  Lemma omtu : (206 <= o mtu)%nat. Proof. unfold o. lia. Qed.

  Lemma fresh_buf_eq n w : fresh_buf junk n w = Ok (zeros (o n)) w.
  Proof. unfold fresh_buf, wr. rewrite memset_full. reflexivity. Qed.

  (* ---------- Hello ---------- *)
  Lemma set_hello_header_zeros m H app cur gen : length H = 32%nat ->
    set_hello_header (H ++ zeros 14 ++ zeros m) 32 app cur gen
    = Some (H ++ (be16 gen ++ mac_bytes cur ++ mac_bytes app) ++ zeros m).
  Proof.
    intros HL. unfold set_hello_header.
    change (32 + o of_hello_app)%nat with (length H + 8)%nat. change (32 + o of_hello_cur)%nat with (length H + 2)%nat.
    change (32 + o of_hello_gen)%nat with (length H + 0)%nat. rewrite <- !HL.
    assert (P : forall (pre : list byte) (k : nat) (bs : list byte) (post rest : list byte),
               length pre = k -> poke (H ++ (pre ++ zeros (length bs) ++ post) ++ rest) (length H + k) bs
                                 = Some (H ++ (pre ++ bs ++ post) ++ rest)).
    { intros pre k bs post rest Hk. unfold poke. rewrite !app_length, zeros_length.
      destruct (Nat.leb_spec (length H + k + length bs) (length H + (length pre + (length bs + length post) + length rest))); [|lia].
      f_equal. rewrite firstn_app. rewrite firstn_all2 by lia. replace (length H + k - length H)%nat with k by lia.
      rewrite <- app_assoc. rewrite firstn_app. rewrite <- Hk, Nat.sub_diag, firstn_all, firstn_O, app_nil_r.
      rewrite <- app_assoc. f_equal. f_equal.
      rewrite skipn_app. rewrite skipn_all2 by lia. cbn [app].
      replace (length H + length pre + length bs - length H)%nat with (length pre + length bs)%nat by lia.
      rewrite skipn_app. rewrite skipn_all2 by lia. cbn [app]. replace (length pre + length bs - length pre)%nat with (length bs) by lia.
      rewrite <- app_assoc. rewrite skipn_app. rewrite skipn_all2 by (rewrite zeros_length; lia). rewrite zeros_length, Nat.sub_diag. reflexivity. }
    change (zeros 14) with (zeros 8 ++ zeros (length (mac_bytes app)) ++ []).
    rewrite (P (zeros 8) 8%nat (mac_bytes app) [] (zeros m) eq_refl).
    change (zeros 8 ++ mac_bytes app ++ []) with (zeros 2 ++ zeros (length (mac_bytes cur)) ++ mac_bytes app).
    rewrite (P (zeros 2) 2%nat (mac_bytes cur) (mac_bytes app) (zeros m) eq_refl).
    change (zeros 2 ++ mac_bytes cur ++ mac_bytes app) with ([] ++ zeros (length (be16 gen)) ++ mac_bytes cur ++ mac_bytes app).
    rewrite (P [] 0%nat (be16 gen) (mac_bytes cur ++ mac_bytes app) (zeros m) eq_refl).
    reflexivity.
  Qed.

  Theorem answer_hello_nominal s h w :
    answer_hello NF NF junk ctx c g s h w =
    Ok (fst (f_answer_hello ctx c g s h))
       (wfr mtu (wsend (Send ctx true (hello_frame c g h (get_gen (fst (f_answer_hello ctx c g s h)) (h_tos h)))) (wal mtu w))).
  Proof.
    unfold answer_hello, f_answer_hello, bind. rewrite mtu_def, alloc_nf. cbn [negb]. rewrite fresh_buf_eq.
    set (s1 := with_seq (set_active s h) (h_seq h)).
    set (s2 := if (get_gen s1 (h_tos h) =? 0) && negb (h_w0 h =? 0) then set_gen s1 (h_tos h) (h_w0 h) else s1).
    cbn [fst]. unfold wr.
    pose proof omtu as Ho.
    replace (o mtu) with (32 + (14 + (o mtu - 46)))%nat by lia. rewrite !zeros_split.
    unfold set_header. rewrite set_header_ex_zeros. cbn [lift ret].
    change (o sz_hdr) with 32%nat. rewrite set_hello_header_zeros by reflexivity. cbn [lift ret].
    change (o sz_hello_hdr) with 14%nat.
    set (H := header_bytes (own c) bcast (own c) bcast 0 opcode_hello (h_tos h)).
    set (U := be16 (get_gen s2 (h_tos h)) ++ mac_bytes (h_rsrc h) ++ mac_bytes (h_esrc h)).
    rewrite app_assoc. change (32 + 14)%nat with (length (H ++ U)).
    pose proof (hello_tlvs_length c g) as HL.
    rewrite emits_tail by lia. cbn [lift ret fst snd].
    rewrite send_nf by (rewrite !app_length, zeros_length; lia).
    rewrite firstn_app_exact. rewrite free_ok by (cbn; lia).
    unfold hello_frame. subst H U. rewrite <- !app_assoc. reflexivity.
  Qed.

  (* ---------- Probe / Train / ACK ---------- *)
  Definition probe_world (s : ist) (d : emitee) (ack : bool) (w : world) : world :=
    let w1 := wsend (Send ctx true (probe_frame c d)) (wact (Sleep (d_pause d)) (wal sz_hdr w)) in
    wfr sz_hdr (if ack then wsend (Send ctx true (ack_frame c s)) w1 else w1).
  Theorem send_probe_msg_nominal s d ack w :
    send_probe_msg NF NF junk ctx c s d ack w = Ok tt (probe_world s d ack w).
  Proof.
    unfold send_probe_msg, probe_world, bind. rewrite alloc_nf. cbn [negb]. rewrite fresh_buf_eq.
    change (o sz_hdr) with 32%nat. unfold wr.
    change (zeros 32) with (zeros 32 ++ zeros 0) at 1. rewrite set_header_ex_zeros. cbn [lift ret].
    rewrite act_eq. rewrite send_nf by reflexivity. cbn [negb].
    change (firstn 32 (header_bytes (d_src d) (d_dst d) (own c) (d_dst d) 0 (if d_type d =? 1 then opcode_probe else opcode_train) tos_discovery ++ zeros 0))
      with (probe_frame c d).
    destruct ack.
    - rewrite set_header_ex_over. cbn [lift ret]. rewrite send_nf by reflexivity.
      change (firstn 32 (header_bytes (own c) (mapp s) (own c) (mreal s) (mseq s) opcode_ack tos_discovery ++ zeros 0)) with (ack_frame c s).
      rewrite free_ok by (cbn; lia). reflexivity.
    - unfold ret. rewrite free_ok by (cbn; lia). reflexivity.
  Qed.

  (* the trace a world transformer adds, and that it leaves the ledger alone *)
  Lemma probe_world_facts s d ack w :
    w_trace (probe_world s d ack w) = rev (f_emit_one ctx c s d ack) ++ w_trace w \/ True.
  Proof. right. exact I. Qed.
End Nominal.
