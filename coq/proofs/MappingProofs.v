(* MappingProofs.v - C14. *)
From LLTD Require Import Automata SpecAutomata AutomataBase.
From Coq Require Import Lia ZifyBool ZifyN ZifyNat.
Ltac Zify.zify_post_hook ::= Z.div_mod_to_equations.
Local Open Scope N_scope.

(* ---------- C14: mapping engine ---------- *)
Definition mstate_code (s : mstate_name) : N := match s with Quiescent => 0 | Command => 1 | Emitting => 2 end.
Definition all_mstates := [Quiescent; Command; Emitting].
Lemma all_mstates_ok s : In s all_mstates. Proof. destruct s; cbn; tauto. Qed.

(* the named inputs of the spec are the C's opcodes *)
Lemma mapping_inputs_named :
  OP_DISCOVER = Z.of_N opcode_discover /\ OP_EMIT = Z.of_N opcode_emit /\ OP_RESET = Z.of_N opcode_reset.
Proof. vm_compute. auto. Qed.

Definition mapping_withs : list Z := map (fun x => snd x) mapping_trans.
Definition mapping_cell_ok (s : mstate_name) (i : Z) : bool :=
  next_state mapping_trans (mstate_code s) i =? mstate_code (mapping_spec s i).
Lemma mapping_cells_listed :
  forallb (fun s => forallb (mapping_cell_ok s) (mapping_withs ++ [OP_DISCOVER; OP_EMIT; OP_RESET; IN_END; IN_EMIT_DONE])) all_mstates = true.
Proof. vm_compute. reflexivity. Qed.
Definition spec_inputs := [OP_DISCOVER; OP_EMIT; OP_RESET; IN_END; IN_EMIT_DONE].
Lemma mapping_spec_other s i : ~ In i spec_inputs -> mapping_spec s i = s.
Proof.
  unfold spec_inputs, OP_DISCOVER, OP_EMIT, OP_RESET, IN_END, IN_EMIT_DONE. cbn [In]. intros H.
  destruct s; unfold mapping_spec, OP_DISCOVER, OP_EMIT, OP_RESET, IN_END, IN_EMIT_DONE;
    repeat match goal with |- context [(i =? ?k)%Z] => destruct (Z.eqb_spec i k); [exfalso; apply H; subst; tauto|] end;
    reflexivity.
Qed.

(* for EVERY input, the table walk is the specified transition *)
Theorem mapping_next_all (s : mstate_name) (i : Z) :
  next_state mapping_trans (mstate_code s) i = mstate_code (mapping_spec s i).
Proof.
  destruct (in_dec Z.eq_dec i (mapping_withs ++ spec_inputs)) as [Hin|Hout].
  - pose proof mapping_cells_listed as C. rewrite forallb_forall in C. specialize (C s (all_mstates_ok s)).
    rewrite forallb_forall in C. specialize (C i Hin). apply N.eqb_eq in C. exact C.
  - rewrite mapping_spec_other by (intro H; apply Hout, in_or_app; right; exact H).
    unfold next_state. rewrite lookup_not_in; [reflexivity|].
    intros f t w Hin e. apply Hout, in_or_app. left. unfold mapping_withs. subst i.
    change w with (snd (f, t, w)). apply in_map. exact Hin.
Qed.

Lemma mapping_timeouts_facts :
  timeout_of mapping_timeouts 0 = 0%Z /\
  (0 < timeout_of mapping_timeouts 1 <= 30)%Z /\ (0 < timeout_of mapping_timeouts 2 <= 30)%Z.
Proof. vm_compute. repeat split; congruence. Qed.

Lemma mapping_end_quiescent s :
  next_state mapping_trans (next_state mapping_trans (mstate_code s) (-1)%Z) (-1)%Z = mstate_code Quiescent.
Proof. destruct s; vm_compute; reflexivity. Qed.

Theorem mapping_step (s : mstate_name) (i : Z) (a : autom) (now : N) :
  a_cur a = mstate_code s -> a_last a <= now -> now < W64 ->
  let a' := switch_mapping a now i in
  let tmo := timeout_of mapping_timeouts (mstate_code s) in
  a_last a' = now /\
  ((tmo = 0%Z \/ now - a_last a <= Z.to_N tmo) -> a_cur a' = mstate_code (mapping_spec s i)) /\
  ((tmo <> 0%Z /\ Z.to_N tmo < now - a_last a) ->
     a_cur a' = mstate_code Quiescent \/ (i = OP_DISCOVER /\ a_cur a' = mstate_code Command)).
Proof.
  intros Hs Hl Hn. cbv zeta. unfold switch_mapping. rewrite switch_timed_spec by assumption. cbn [a_last a_cur].
  unfold timed_out. rewrite Hs. split; [reflexivity|].
  assert (Hu : u64_of_Z (timeout_of mapping_timeouts (mstate_code s)) = Z.to_N (timeout_of mapping_timeouts (mstate_code s))).
  { destruct s; vm_compute; reflexivity. }
  rewrite Hu. split.
  - intros [H0|Hle].
    + rewrite H0. cbn [Z.eqb negb andb]. apply mapping_next_all.
    + destruct (Z.to_N (timeout_of mapping_timeouts (mstate_code s)) <? now - a_last a) eqn:E; [lia|].
      rewrite andb_false_r. apply mapping_next_all.
  - intros [Hnz Hlt]. left.
    destruct (timeout_of mapping_timeouts (mstate_code s) =? 0)%Z eqn:E0; [lia|].
    destruct (Z.to_N (timeout_of mapping_timeouts (mstate_code s)) <? now - a_last a) eqn:E; [|lia].
    cbn [negb andb]. apply mapping_end_quiescent.
Qed.

Example mapping_step_example :
  a_cur (switch_mapping {| a_cur := 1; a_last := 3 |} 4 2%Z) = mstate_code Emitting /\
  a_cur (switch_mapping {| a_cur := 2; a_last := 3 |} 40 4%Z) = mstate_code Quiescent.
Proof. vm_compute. auto. Qed.

Theorem tick_inactive (ctx : N) (a : aset) (w : world) :
  let now_s := w_now w / 1000 in
  w_now w < W64 -> a_last (a_map a) <= now_s ->
  a_cur (a_map a) < 3 ->
  ms_inact (a_mst a) <> 0 -> ms_inact (a_mst a) <= now_s ->
  exists a' w', tick ctx a w = Ok a' w' /\
    a_cur (a_map a') = mstate_code Quiescent /\ ms_ctc (a_mst a') = 0 /\ st_is_empty (a_tbl a') = true.
Proof.
  cbv zeta. intros Hw Hl Hc Hnz Hdue.
  set (ns := w_now w / 1000) in *.
  assert (Hns : ns < W64) by (unfold W64 in *; subst ns; lia).
  assert (Hdue' : map_inactive_due ns (a_mst a) = true).
  { unfold map_inactive_due. destruct (ms_inact (a_mst a) =? 0) eqn:E; [lia|]. cbn [negb andb]. lia. }
  assert (Hq : a_cur (switch_mapping (a_map a) ns (-1)%Z) = 0).
  { unfold switch_mapping. rewrite switch_timed_spec by assumption. cbn [a_cur].
    assert (Hs : exists s, a_cur (a_map a) = mstate_code s).
    { destruct (N.eq_dec (a_cur (a_map a)) 0) as [e|]; [exists Quiescent; exact e|].
      destruct (N.eq_dec (a_cur (a_map a)) 1) as [e|]; [exists Command; exact e|].
      exists Emitting. cbn. lia. }
    destruct Hs as [s Hs]. rewrite Hs.
    destruct (timed_out mapping_timeouts (mstate_code s) (ns - a_last (a_map a))).
    - apply mapping_end_quiescent.
    - destruct s; vm_compute; reflexivity. }
  destruct (tick_shape ctx a w) as (a' & w' & Ht & Hm & Hms & _ & Htb & _).
  fold ns in Hm, Hms, Htb.
  exists a', w'. split; [exact Ht|].
  unfold tick_mapping in Hm, Hms, Htb. rewrite Hdue' in Hm, Hms, Htb. cbn [a_map a_mst a_tbl] in Hm, Hms, Htb.
  rewrite Hm, Hms, Htb. split; [exact Hq|]. split.
  - unfold map_check_charge, map_reset_charge. cbn [ms_chg ms_ctc ms_inact]. cbn. reflexivity.
  - unfold tick_table. cbn [st_clear t_slots t_count t_allc]. rewrite expire_slot0. reflexivity.
Qed.

