(* SpecTx.v - C02 / C04: what a responder may put on the wire, as a decoder and
   validator over the raw bytes of a frame, written from the MS-LLTD wire
   format: 14-byte Ethernet header (destination, source, EtherType 0x88D9),
   demultiplex header (version, type of service, reserved, opcode), base header
   (real destination, real source, sequence number), then per opcode:
     Hello              generation, current mapper, apparent mapper, property
                        list of type/length/value triples closed by a 0 byte
     QueryResp          16-bit word: bit 15 more, bit 14 error, low 14 bits the
                        number of 20-byte descriptors that follow
     QueryLargeTlvResp  16-bit word: bit 15 more, bit 14 reserved, low 14 bits
                        the number of payload bytes that follow
   Nothing here refers to the frame builders of the model.  Definitions only,
   all computable.  The configuration records [pcfg] / [gcfg] are used by
   [attrs_of] alone (what the platform supplied, for comparison). *)
From Coq Require Import List NArith ZArith Bool.
From LLTD Require Import Tx.
Import ListNotations.
Local Open Scope N_scope.

(* ---- slicing ---- *)
Definition fld (f : list N) (off n : nat) : list N := firstn n (skipn off f).
Definition byte_at (f : list N) (off : nat) : N := nth off f 0.
Fixpoint list_eqb (a b : list N) : bool :=
  match a, b with
  | [], [] => true
  | x :: a', y :: b' => (x =? y) && list_eqb a' b'
  | _, _ => false
  end.

(* ---- big-endian numbers ---- *)
Definition be16_dec (l : list N) : N :=
  match l with [a; b] => a * 256 + b | _ => 0 end.
Definition be32_dec (l : list N) : N :=
  match l with [a; b; c; d] => ((a * 256 + b) * 256 + c) * 256 + d | _ => 0 end.
Definition be64_dec (l : list N) : N :=
  match l with
  | [a; b; c; d; e; f; g; h] => be32_dec [a; b; c; d] * 4294967296 + be32_dec [e; f; g; h]
  | _ => 0
  end.
(* two's complement, 32 bits *)
Definition s32_dec (l : list N) : Z :=
  let u := Z.of_N (be32_dec l) in
  if (u <? 2147483648)%Z then u else (u - 4294967296)%Z.

(* ---- the property list ---- *)
(* type; 0 closes the list and must be its last byte; otherwise a length byte and that many value bytes *)
Fixpoint parse_tlvs (fuel : nat) (l : list N) : option (list (N * list N)) :=
  match fuel with
  | O => None
  | S k =>
    match l with
    | [] => None
    | t :: r =>
      if t =? 0 then (match r with [] => Some [] | _ :: _ => None end)
      else
        match r with
        | [] => None
        | len :: r' =>
          if (N.to_nat len <=? length r')%nat
          then option_map (cons (t, firstn (N.to_nat len) r')) (parse_tlvs k (skipn (N.to_nat len) r'))
          else None
        end
    end
  end.
Definition parse_props (l : list N) : option (list (N * list N)) := parse_tlvs (S (length l)) l.

Fixpoint assoc {A : Type} (t : N) (l : list (N * A)) : option A :=
  match l with
  | [] => None
  | (k, v) :: r => if k =? t then Some v else assoc t r
  end.

(* per type: (true, n) = exactly n value bytes, (false, n) = at most n *)
Definition len_rules : list (N * (bool * N)) :=
  [ (1,  (true, 6));     (* host id *)
    (2,  (true, 4));     (* characteristics *)
    (3,  (true, 4));     (* physical medium / interface type *)
    (4,  (true, 1));     (* wireless mode *)
    (5,  (true, 6));     (* BSSID *)
    (6,  (false, 32));   (* SSID *)
    (7,  (true, 4));     (* IPv4 address *)
    (8,  (true, 16));    (* IPv6 address *)
    (9,  (true, 2));     (* maximum operational rate *)
    (10, (true, 8));     (* performance counter frequency *)
    (12, (true, 4));     (* link speed *)
    (13, (true, 4));     (* RSSI *)
    (14, (true, 0));     (* icon image: empty in a Hello, fetched with QueryLargeTlv *)
    (15, (false, 32));   (* machine name *)
    (16, (false, 64));   (* support information (URL) *)
    (17, (true, 0));     (* friendly name: empty in a Hello *)
    (18, (true, 16));    (* device UUID *)
    (19, (false, 200));  (* hardware id *)
    (20, (true, 4));     (* QoS characteristics *)
    (21, (true, 1));     (* 802.11 physical medium *)
    (22, (true, 0));     (* AP association table: empty in a Hello *)
    (24, (true, 0));     (* detailed icon image: empty in a Hello *)
    (25, (true, 2));     (* sees-list working set *)
    (26, (true, 0));     (* component table: empty in a Hello *)
    (27, (false, 36));   (* repeater AP lineage *)
    (28, (true, 0)) ].   (* repeater AP table: empty in a Hello *)
(* The table covers every property type MS-LLTD defines for a Hello, not only the ones this responder emits today. *)
Definition legal_len (t len : N) : bool :=
  match assoc t len_rules with
  | Some (true, n) => len =? n
  | Some (false, n) => len <=? n
  | None => false
  end.

Fixpoint mem_N (x : N) (l : list N) : bool :=
  match l with [] => false | y :: r => (x =? y) || mem_N x r end.
Fixpoint nodup_N (l : list N) : bool :=
  match l with [] => true | x :: r => negb (mem_N x r) && nodup_N r end.

(* a Hello's property list: parses, starts with the host id, legal lengths, no type twice *)
Definition wf_hello_props (l : list N) : bool :=
  match parse_props l with
  | Some ((t0, v0) :: r) =>
    (t0 =? 1)
    && forallb (fun p => legal_len (fst p) (N.of_nat (length (snd p)))) ((t0, v0) :: r)
    && nodup_N (map fst ((t0, v0) :: r))
  | _ => false
  end.

(* ---- any frame a responder may transmit ---- *)
Definition wf_body (tos opc : N) (f : list N) : bool :=
  if opc =? 1 then                                           (* Hello *)
    ((tos =? 0) || (tos =? 1)) && (46 <=? length f)%nat && wf_hello_props (skipn 46 f)
  else if (opc =? 3) || (opc =? 4) || (opc =? 5) then        (* Train, Probe, ACK *)
    (length f =? 32)%nat
  else if opc =? 7 then                                      (* QueryResp *)
    (34 <=? length f)%nat
    && (let w := be16_dec (fld f 32 2) in
        ((w / 16384) mod 2 =? 0) && (length f =? 34 + 20 * N.to_nat (w mod 16384))%nat)
  else if opc =? 12 then                                     (* QueryLargeTlvResp *)
    (34 <=? length f)%nat
    && (let w := be16_dec (fld f 32 2) in
        ((w / 16384) mod 2 =? 0) && (length f =? 34 + N.to_nat (w mod 16384))%nat)
  else false.

Definition wf_tx (ownmac : list N) (mtu : nat) (f : list N) : bool :=
  (32 <=? length f)%nat && (length f <=? mtu)%nat
  && (byte_at f 12 =? 136) && (byte_at f 13 =? 217)          (* EtherType 0x88D9 *)
  && (byte_at f 14 =? 1)                                     (* version *)
  && (byte_at f 16 =? 0)                                     (* reserved *)
  && list_eqb (fld f 24 6) ownmac                            (* real source *)
  && wf_body (byte_at f 15) (byte_at f 17) f.

(* ---- the fields of a Hello ---- *)
Record hello_rec := {
  hf_edst : list N; hf_esrc : list N; hf_tos : N;
  hf_rdst : list N; hf_rsrc : list N; hf_seq : N;
  hf_gen : N; hf_cur : list N; hf_app : list N;
  hf_props : list (N * list N)
}.
Definition hello_fields (f : list N) : option hello_rec :=
  match parse_props (skipn 46 f) with
  | None => None
  | Some ps =>
    Some {| hf_edst := fld f 0 6; hf_esrc := fld f 6 6; hf_tos := byte_at f 15;
            hf_rdst := fld f 18 6; hf_rsrc := fld f 24 6; hf_seq := be16_dec (fld f 30 2);
            hf_gen := be16_dec (fld f 32 2); hf_cur := fld f 34 6; hf_app := fld f 40 6;
            hf_props := ps |}
  end.

(* ---- attributes, decoded ---- *)
Record attrs := {
  at_hostid : option (list N);
  at_flags : option N;          (* upper 16 bits of the characteristics word *)
  at_iftype : option N;
  at_ipv4 : option N;
  at_ipv6 : option (list N);
  at_perf : option N;
  at_speed : option N;
  at_name : option (list N);
  at_wifi : option N;
  at_bssid : option (list N);
  at_ssid : option (list N);
  at_rate : option N;
  at_rssi : option Z;
  at_qos : option N             (* upper 16 bits of the QoS characteristics word *)
}.

(* the value of type [t] when present with exactly / at most [n] bytes *)
Definition val_exact (t : N) (n : nat) (ps : list (N * list N)) : option (list N) :=
  match assoc t ps with
  | Some v => if (length v =? n)%nat then Some v else None
  | None => None
  end.
Definition val_upto (t : N) (n : nat) (ps : list (N * list N)) : option (list N) :=
  match assoc t ps with
  | Some v => if (length v <=? n)%nat then Some v else None
  | None => None
  end.

Definition decode_attrs (ps : list (N * list N)) : attrs :=
  {| at_hostid := val_exact 1 6 ps;
     at_flags := option_map (fun v => be32_dec v / 65536) (val_exact 2 4 ps);
     at_iftype := option_map be32_dec (val_exact 3 4 ps);
     at_ipv4 := option_map be32_dec (val_exact 7 4 ps);
     at_ipv6 := val_exact 8 16 ps;
     at_perf := option_map be64_dec (val_exact 10 8 ps);
     at_speed := option_map be32_dec (val_exact 12 4 ps);
     at_name := val_upto 15 32 ps;
     at_wifi := option_map (fun v => nth 0 v 0) (val_exact 4 1 ps);
     at_bssid := val_exact 5 6 ps;
     at_ssid := val_upto 6 32 ps;
     at_rate := option_map be16_dec (val_exact 9 2 ps);
     at_rssi := option_map s32_dec (val_exact 13 4 ps);
     at_qos := option_map (fun v => be32_dec v / 65536) (val_exact 20 4 ps) |}.

(* ---- the same record, straight from what the platform getters supplied ---- *)
Definition pad16 (l : list N) : list N := l ++ repeat 0 (16 - length l).
Definition if_wifi {A : Type} (c : pcfg) (x : option A) : option A :=
  match c_wifi c with Some _ => x | None => None end.

Definition attrs_of (c : pcfg) (g : gcfg) : attrs :=
  {| at_hostid := Some (mac_bytes (own c));
     at_flags := Some (c_flags c mod 65536);
     at_iftype := Some (opt0 (c_iftype c) mod 4294967296);
     at_ipv4 := Some (opt0 (c_ipv4 c) mod 4294967296);
     at_ipv6 := Some (match c_ipv6 c with Some a => pad16 (firstn 16 a) | None => repeat 0 16 end);
     at_perf := Some 1000000;
     at_speed := Some (opt0 (c_speed c));
     at_name := Some (firstn 32 (g_host g));
     at_wifi := c_wifi c;
     at_bssid := if_wifi c (option_map mac_bytes (c_bssid c));
     at_ssid := if_wifi c (Some (firstn 32 (c_ssid c)));
     at_rate := if_wifi c (Some (opt0 (c_rate c)));
     at_rssi := if_wifi c (Some (match c_rssi c with Some r => r | None => 0%Z end));
     at_qos := Some 57344 |}.
