(* Spec.v - umbrella for the executable specification predicates that are
   extracted next to the model (oracles run on implementation traces). *)
From LLTD Require Export SpecAutomata SpecExec.
