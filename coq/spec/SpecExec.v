(* SpecExec.v - the specifications in directly executable form, extracted next
   to the model so that the check can evaluate "what the property demands" on
   the implementation's own observations (DESIGN.md 4.3).  Numeric codes are
   the documented ones (lltdAutomata.h alphabet); AutomataProofs shows they
   coincide with the regenerated constants. *)
From LLTD Require Import SpecAutomata.
From Coq Require Import List NArith ZArith Bool.
Import ListNotations.
Local Open Scope N_scope.

Definition sstate_of (n : N) : option sstate :=
  match n with 0 => Some Temporary | 1 => Some Nascent | 2 => Some Pending | 3 => Some Complete | _ => None end.
Definition sstate_num (s : sstate) : N := match s with Temporary => 0 | Nascent => 1 | Pending => 2 | Complete => 3 end.
Definition sevent_of (z : Z) : option sevent :=
  match z with
  | 0%Z => Some EvConflicting | 1%Z => Some EvReset | 2%Z => Some EvNoAck | 3%Z => Some EvAcking
  | 4%Z => Some EvNoAckChanged | 5%Z => Some EvAckingChanged | 6%Z => Some EvTopoReset | 7%Z => Some EvHello
  | _ => None
  end.
(* expected session state; None = the property leaves this case open *)
Definition session_expect (s : N) (ev : Z) (elapsed : N) : option N :=
  match sstate_of s, sevent_of ev with
  | Some s', Some e => Some (sstate_num (if 1 <? elapsed then Nascent else session_spec s' e))
  | _, _ => None
  end.

Definition mstate_of (n : N) : option mstate_name :=
  match n with 0 => Some Quiescent | 1 => Some Command | 2 => Some Emitting | _ => None end.
Definition mstate_num (s : mstate_name) : N := match s with Quiescent => 0 | Command => 1 | Emitting => 2 end.
(* expected mapping states (alternatives) given the state's time-out *)
Definition mapping_expect (s : N) (input : Z) (elapsed : N) (tmo : Z) : list N :=
  match mstate_of s with
  | None => []
  | Some s' =>
    if (tmo =? 0)%Z || (elapsed <=? Z.to_N tmo) then [mstate_num (mapping_spec s' input)]
    else if (input =? OP_DISCOVER)%Z then [0; 1] else [0]
  end.

(* expected repetition count after a block *)
Definition ni_expect (r : N) (begun : bool) (old : N) : N :=
  if (0 <? r) && begun then ni_spec r else old.

(* ---- C16: the dictionary the session table has to behave like ---- *)
Record dent := { d_k0 : N; d_k1 : N; d_k2 : N; d_k3 : N; d_k4 : N; d_k5 : N; d_gen : N; d_seq : N; d_complete : bool; d_last : N }.
Definition dkey (e : dent) (k0 k1 k2 k3 k4 k5 g : N) : bool :=
  (d_k0 e =? k0) && (d_k1 e =? k1) && (d_k2 e =? k2) && (d_k3 e =? k3) && (d_k4 e =? k4) && (d_k5 e =? k5) && (d_gen e =? g).
Definition dict := list dent.
Definition d_has (d : dict) k0 k1 k2 k3 k4 k5 g : bool := existsb (fun e => dkey e k0 k1 k2 k3 k4 k5 g) d.
(* add: refresh a known session, insert an unknown one if fewer than 16 are live, else refuse *)
Definition d_add (d : dict) (now : N) k0 k1 k2 k3 k4 k5 g seq : dict * bool :=
  if d_has d k0 k1 k2 k3 k4 k5 g then
    (map (fun e => if dkey e k0 k1 k2 k3 k4 k5 g
                   then {| d_k0 := d_k0 e; d_k1 := d_k1 e; d_k2 := d_k2 e; d_k3 := d_k3 e; d_k4 := d_k4 e; d_k5 := d_k5 e;
                           d_gen := d_gen e; d_seq := seq; d_complete := d_complete e; d_last := now |} else e) d, true)
  else if (length d <? 16)%nat then
    (d ++ [{| d_k0 := k0; d_k1 := k1; d_k2 := k2; d_k3 := k3; d_k4 := k4; d_k5 := k5;
              d_gen := g; d_seq := seq; d_complete := false; d_last := now |}], true)
  else (d, false).
Definition d_remove (d : dict) k0 k1 k2 k3 k4 k5 g : dict := filter (fun e => negb (dkey e k0 k1 k2 k3 k4 k5 g)) d.
Definition d_set_complete (d : dict) k0 k1 k2 k3 k4 k5 g (v : bool) : dict :=
  map (fun e => if dkey e k0 k1 k2 k3 k4 k5 g
                then {| d_k0 := d_k0 e; d_k1 := d_k1 e; d_k2 := d_k2 e; d_k3 := d_k3 e; d_k4 := d_k4 e; d_k5 := d_k5 e;
                        d_gen := d_gen e; d_seq := d_seq e; d_complete := v; d_last := d_last e |} else e) d.
(* a session idle for more than 60 s is removed by the tick *)
Definition d_tick (d : dict) (now_s : N) : dict := filter (fun e => negb (d_last e + 60 <? now_s)) d.
Definition d_all_complete (d : dict) : bool := forallb d_complete d.
