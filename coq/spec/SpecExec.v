(* SpecExec.v - the specifications in directly executable form, extracted next
   to the model so that the check can evaluate "what the property demands" on
   the implementation's own observations (DESIGN.md 4.3).  Numeric codes are
   the documented ones (lltdAutomata.h alphabet); AutomataProofs shows they
   coincide with the regenerated constants. *)
From LLTD Require Import SpecAutomata.
From Coq Require Import List NArith ZArith Bool.
Import ListNotations.
Local Open Scope N_scope.

Definition sstate_of (n : N) : option sstate :=
  match n with 0 => Some Temporary | 1 => Some Nascent | 2 => Some Pending | 3 => Some Complete | _ => None end.
Definition sstate_num (s : sstate) : N := match s with Temporary => 0 | Nascent => 1 | Pending => 2 | Complete => 3 end.
Definition sevent_of (z : Z) : option sevent :=
  match z with
  | 0%Z => Some EvConflicting | 1%Z => Some EvReset | 2%Z => Some EvNoAck | 3%Z => Some EvAcking
  | 4%Z => Some EvNoAckChanged | 5%Z => Some EvAckingChanged | 6%Z => Some EvTopoReset | 7%Z => Some EvHello
  | _ => None
  end.
(* expected session state; None = the property leaves this case open *)
Definition session_expect (s : N) (ev : Z) (elapsed : N) : option N :=
  match sstate_of s, sevent_of ev with
  | Some s', Some e => Some (sstate_num (if 1 <? elapsed then Nascent else session_spec s' e))
  | _, _ => None
  end.

Definition mstate_of (n : N) : option mstate_name :=
  match n with 0 => Some Quiescent | 1 => Some Command | 2 => Some Emitting | _ => None end.
Definition mstate_num (s : mstate_name) : N := match s with Quiescent => 0 | Command => 1 | Emitting => 2 end.
(* expected mapping states (alternatives) given the state's time-out *)
Definition mapping_expect (s : N) (input : Z) (elapsed : N) (tmo : Z) : list N :=
  match mstate_of s with
  | None => []
  | Some s' =>
    if (tmo =? 0)%Z || (elapsed <=? Z.to_N tmo) then [mstate_num (mapping_spec s' input)]
    else if (input =? OP_DISCOVER)%Z then [0; 1] else [0]
  end.

(* expected repetition count after a block *)
Definition ni_expect (r : N) (begun : bool) (old : N) : N :=
  if (0 <? r) && begun then ni_spec r else old.
