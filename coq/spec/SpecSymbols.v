(* SpecSymbols.v - what the protocol core may reference (C20), written from the property text. *)
From Coq Require Import List String Bool.
Import ListNotations.
Local Open Scope string_scope.

Definition mem_eqb (l : list string) (s : string) : bool := existsb (String.eqb s) l.
(* memory primitives a C compiler may emit calls to by itself *)
Definition mem_prims : list string := ["memcpy"; "memset"; "memmove"; "memcmp"].
(* compiler / linker runtime that is not a service of the environment *)
Definition compiler_runtime : list string :=
  ["_GLOBAL_OFFSET_TABLE_"; "__stack_chk_fail"; "__stack_chk_guard";
   (* 64-bit arithmetic and block-memory helpers a compiler emits by itself on 32-bit targets (libgcc / compiler-rt /
      ARM EABI / MSVC run-time support): part of the compiler, not a service of the environment *)
   "__udivdi3"; "__umoddi3"; "__divdi3"; "__moddi3"; "__muldi3"; "__ashldi3"; "__lshrdi3"; "__ashrdi3"; "__udivmoddi4";
   "__aeabi_uldivmod"; "__aeabi_ldivmod"; "__aeabi_lmul"; "__aeabi_llsl"; "__aeabi_llsr";
   "__aeabi_memcpy"; "__aeabi_memcpy4"; "__aeabi_memcpy8"; "__aeabi_memset"; "__aeabi_memset4"; "__aeabi_memset8";
   "__aeabi_memclr"; "__aeabi_memclr4"; "__aeabi_memclr8"; "__aeabi_memmove"; "__aeabi_memmove4"; "__aeabi_memmove8";
   (* 32-bit division / count / byte-swap helpers of targets without the instruction (ARM EABI, RV32 without M, libgcc) *)
   "__aeabi_uidiv"; "__aeabi_uidivmod"; "__aeabi_idiv"; "__aeabi_idivmod"; "__aeabi_lasr"; "__aeabi_ulcmp"; "__aeabi_lcmp"; "__udivsi3"; "__umodsi3"; "__divsi3"; "__modsi3"; "__mulsi3"; "__udivmodsi4"; "__divmodsi4"; "__divmoddi4"; "__clzsi2"; "__clzdi2"; "__ctzsi2"; "__ctzdi2"; "__bswapsi2"; "__bswapdi2"; "__popcountsi2"; "__popcountdi2"; "__ucmpdi2"; "__cmpdi2";
   "_aulldiv"; "_aullrem"; "_alldiv"; "_allrem"; "_allmul"; "_aullshr"; "_allshl"; "_allshr"; "__chkstk"; "_chkstk"].
Definition allowed (api : list string) (s : string) : bool :=
  mem_eqb api s || mem_eqb mem_prims s || mem_eqb compiler_runtime s.
(* headers every conforming freestanding implementation provides: no C library, no OS *)
Definition freestanding_headers : list string :=
  ["stddef.h"; "stdint.h"; "stdbool.h"; "stdarg.h"; "limits.h"; "float.h"; "iso646.h"; "stdalign.h"; "stdnoreturn.h"].
(* every port function name is in the port's name space *)
Definition is_port_name (s : string) : bool := String.prefix "lltd_port_" s.
