(* SpecSymbols.v - what the protocol core may reference (C20), written from the property text. *)
From Coq Require Import List String Bool.
Import ListNotations.
Local Open Scope string_scope.

Definition mem_eqb (l : list string) (s : string) : bool := existsb (String.eqb s) l.
(* memory primitives a C compiler may emit calls to by itself *)
Definition mem_prims : list string := ["memcpy"; "memset"; "memmove"; "memcmp"].
(* compiler / linker runtime that is not a service of the environment *)
Definition compiler_runtime : list string := ["_GLOBAL_OFFSET_TABLE_"; "__stack_chk_fail"; "__stack_chk_guard"].
Definition allowed (api : list string) (s : string) : bool :=
  mem_eqb api s || mem_eqb mem_prims s || mem_eqb compiler_runtime s.
(* headers every conforming freestanding implementation provides: no C library, no OS *)
Definition freestanding_headers : list string :=
  ["stddef.h"; "stdint.h"; "stdbool.h"; "stdarg.h"; "limits.h"; "float.h"; "iso646.h"; "stdalign.h"; "stdnoreturn.h"].
(* every port function name is in the port's name space *)
Definition is_port_name (s : string) : bool := String.prefix "lltd_port_" s.
