(* SpecAutomata.v - what the properties C13, C14, C15 say, written from the
   property text and the LLTD specification, not from the C tables. *)
From Coq Require Import List NArith ZArith Bool.
Import ListNotations.
Local Open Scope Z_scope.

(* ---- C15: session life-cycle.  States and events by their protocol names ---- *)
Inductive sstate := Temporary | Nascent | Pending | Complete.
Inductive sevent := EvConflicting | EvReset | EvNoAck | EvAcking | EvNoAckChanged | EvAckingChanged | EvTopoReset | EvHello.

Definition session_spec (s : sstate) (e : sevent) : sstate :=
  match e with
  | EvReset => Nascent                      (* a Reset returns every state to Nascent *)
  | _ =>
    match s, e with
    | Nascent, EvNoAck => Pending
    | Nascent, EvAcking => Complete
    | Nascent, EvConflicting => Temporary
    | Pending, EvAcking => Complete
    | Pending, EvAckingChanged => Complete
    | Complete, EvNoAckChanged => Pending
    | Temporary, EvHello => Nascent
    | Temporary, EvTopoReset => Nascent
    | _, _ => s                              (* no other session event changes the state *)
    end
  end.

(* ---- C14: mapping engine ---- *)
Inductive mstate_name := Quiescent | Command | Emitting.
(* inputs are raw opcodes (and the internal pseudo-inputs -1 = end, -3 = emission done) *)
Definition OP_DISCOVER := 0. Definition OP_EMIT := 2. Definition OP_RESET := 8.
Definition IN_END := -1. Definition IN_EMIT_DONE := -3.

Definition mapping_spec (s : mstate_name) (input : Z) : mstate_name :=
  match s with
  | Quiescent => if input =? OP_DISCOVER then Command else Quiescent
  | Command => if input =? OP_EMIT then Emitting
               else if (input =? OP_RESET) || (input =? IN_END) then Quiescent else Command
  | Emitting => if input =? IN_EMIT_DONE then Command
                else if (input =? OP_RESET) || (input =? IN_END) then Quiescent else Emitting
  end.

(* ---- C13: RepeatBand (documented constants) ---- *)
Local Open Scope N_scope.
Definition NMAX : N := 10000. Definition ALPHA : N := 45. Definition BETA : N := 2.
Definition GAMMA : N := 10. Definition TXC : N := 4.
Definition ni_spec (r : N) : N := N.min NMAX (ALPHA * r ^ BETA).
(* load formula: interval * 3 * GAMMA >= TXC * Ni * 20, and at least one frame time (20/3 ms, rounded down) *)
Definition interval_ok (ni interval : N) : Prop :=
  TXC * ni * 20 <= interval * (3 * GAMMA) /\ 6 <= interval.
