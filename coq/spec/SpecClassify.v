(* SpecClassify.v - C11: what a received frame means as a session event,
   written over the frame's bytes with plain list slicing (wire layout of
   MS-LLTD: 32-byte base header, then generation and station count, then the
   station list of consecutive 6-byte addresses). *)
From Coq Require Import List NArith ZArith Bool.
Import ListNotations.
Local Open Scope N_scope.

Definition bytes_at (l : list N) (off n : nat) : list N := firstn n (skipn off l).
Definition u16_at (l : list N) (off : nat) : N :=
  match bytes_at l off 2 with [a; b] => a * 256 + b | _ => 0 end.
Fixpoint bytes_eqb (a b : list N) : bool :=
  match a, b with
  | [], [] => true
  | x :: a', y :: b' => (x =? y) && bytes_eqb a' b'
  | _, _ => false
  end.
Definition addr_at (fr : list N) (off : nat) (addr : list N) : bool := bytes_eqb (bytes_at fr off 6) addr.
(* is [me] among the first n station addresses? *)
Definition listed (fr : list N) (n : nat) (me : list N) : bool :=
  existsb (fun i => addr_at fr (36 + 6 * i) me) (seq 0 n).

Definition EV_NONE : Z := (-1)%Z.
(* known rsrc gen = sequence number under which a session with that mapper and generation is known *)
Definition classify_spec (fr : list N) (known : list N -> N -> option N) (me : list N) : Z :=
  if (length fr <? 32)%nat then EV_NONE else
  let opc := nth 17 fr 0 in
  if opc =? 8 then (if addr_at fr 18 [255; 255; 255; 255; 255; 255] then 6%Z else 1%Z)   (* Reset: topology-wide iff real destination is broadcast *)
  else if opc =? 1 then 7%Z                                                          (* Hello *)
  else if opc =? 0 then                                                              (* Discover *)
    if (length fr <? 36)%nat then EV_NONE else
    let count := u16_at fr 34 in
    let held := ((length fr - 36) / 6)%nat in
    let n := Nat.min (N.to_nat count) held in
    let acking := if count =? 0 then true else listed fr n me in
    let changed := match known (bytes_at fr 24 6) (u16_at fr 32) with
                   | Some q => negb (q =? u16_at fr 30) | None => false end in
    (if acking then (if changed then 5%Z else 3%Z) else (if changed then 4%Z else 2%Z))
  else EV_NONE.
(* the property leaves a Discover with an empty station list open *)
Definition classify_constrained (fr : list N) : bool :=
  negb ((32 <=? length fr)%nat && (nth 17 fr 0 =? 0) && (36 <=? length fr)%nat && (u16_at fr 34 =? 0)).
