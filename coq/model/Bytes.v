(* Bytes.v - bytes, big-endian words, Ethernet addresses, bounds-checked buffer
   access.  Mirrors lltdEndian.h and the raw memory accesses of the C core.
   Model definitions only; proofs live in coq/proofs. *)
From Coq Require Export List NArith ZArith Bool.
Export ListNotations.
Local Open Scope N_scope.

Notation byte := N (only parsing).

(* ---- Ethernet addresses ---- *)
Record mac := Mac { m0 : N; m1 : N; m2 : N; m3 : N; m4 : N; m5 : N }.
Definition mac_bytes (m : mac) : list byte := [m0 m; m1 m; m2 m; m3 m; m4 m; m5 m].
Definition mac_eqb (a b : mac) : bool :=
  (m0 a =? m0 b) && (m1 a =? m1 b) && (m2 a =? m2 b) && (m3 a =? m3 b) && (m4 a =? m4 b) && (m5 a =? m5 b).
Definition zmac : mac := Mac 0 0 0 0 0 0.
Definition bcast : mac := Mac 255 255 255 255 255 255.
Definition mac_ok (m : mac) : Prop :=
  m0 m < 256 /\ m1 m < 256 /\ m2 m < 256 /\ m3 m < 256 /\ m4 m < 256 /\ m5 m < 256.

(* ---- big-endian encodings (lltd_htons / lltd_htonl followed by a store) ---- *)
Definition be16 (v : N) : list byte := [(v / 256) mod 256; v mod 256].
Definition be32 (v : N) : list byte :=
  [(v / 16777216) mod 256; (v / 65536) mod 256; (v / 256) mod 256; v mod 256].
Definition be64 (v : N) : list byte := be32 (v / 4294967296) ++ be32 (v mod 4294967296).

Definition zeros (n : nat) : list byte := repeat 0 n.

(* ---- reads from a received buffer: None = outside the buffer ---- *)
Definition rd8 (buf : list byte) (off : nat) : option N := nth_error buf off.
Definition rd16 (buf : list byte) (off : nat) : option N :=
  match rd8 buf off, rd8 buf (S off) with
  | Some a, Some b => Some (a * 256 + b)
  | _, _ => None
  end.
Definition rdmac (buf : list byte) (off : nat) : option mac :=
  match rd8 buf off, rd8 buf (1 + off), rd8 buf (2 + off), rd8 buf (3 + off), rd8 buf (4 + off), rd8 buf (5 + off) with
  | Some a, Some b, Some c, Some d, Some e, Some f => Some (Mac a b c d e f)
  | _, _, _, _, _, _ => None
  end.

(* ---- writes into a transmit buffer: None = outside the buffer ---- *)
Definition poke (buf : list byte) (off : nat) (bs : list byte) : option (list byte) :=
  if (off + length bs <=? length buf)%nat
  then Some (firstn off buf ++ bs ++ skipn (off + length bs) buf)
  else None.

(* memset(buf, v, n) *)
Definition memset (buf : list byte) (v : N) (n : nat) : option (list byte) :=
  if (n <=? length buf)%nat then Some (repeat v n ++ skipn n buf) else None.

Definition nat_of (n : N) : nat := N.to_nat n.
