(* World.v - what the core can do to its environment (lltdPort.h), as a state
   monad over an explicit world: the ordered list of port calls, the
   allocation ledger, the allocation / transmit cursors consulted by the fault
   oracles, and the virtual clock. *)
From LLTD Require Export Bytes.
Local Open Scope N_scope.

Inductive action :=
| Sleep (ms : N)                                   (* lltd_port_sleep_ms *)
| Send (ctx : N) (ok : bool) (frame : list byte)   (* lltd_port_send_frame and what it returned *)
| HelloTx (ctx : N) (ms : N).                      (* send_hello callback of the periodic tick *)

Record world := {
  w_trace : list action;   (* newest first *)
  w_live : nat;            (* live allocations handed out by lltd_port_malloc *)
  w_bytes : N;             (* their total size *)
  w_allocs : N;            (* lltd_port_malloc calls so far (index for the oracle) *)
  w_sends : N;             (* lltd_port_send_frame calls so far *)
  w_now : N                (* monotonic milliseconds *)
}.

Definition world0 : world :=
  {| w_trace := []; w_live := 0; w_bytes := 0; w_allocs := 0; w_sends := 0; w_now := 0 |}.

Inductive fault := OobRead | OobWrite | BadFree | NullDeref | ArithOverflow.

Inductive res (A : Type) := Ok (a : A) (w : world) | Fault (f : fault).
Arguments Ok {A}. Arguments Fault {A}.

Definition M (A : Type) := world -> res A.
Definition ret {A} (a : A) : M A := fun w => Ok a w.
Definition bind {A B} (m : M A) (f : A -> M B) : M B :=
  fun w => match m w with Ok a w' => f a w' | Fault e => Fault e end.
Definition fail {A} (e : fault) : M A := fun _ => Fault e.
Notation "x <- m ;; f" := (bind m (fun x => f)) (at level 61, m at next level, right associativity).
Notation "m ;;; f" := (bind m (fun _ => f)) (at level 61, right associativity).

(* option -> M with a given fault *)
Definition lift {A} (e : fault) (o : option A) : M A :=
  match o with Some a => ret a | None => fail e end.

Definition now_ms : M N := fun w => Ok (w_now w) w.
Definition now_s : M N := fun w => Ok (w_now w / 1000) w.

Definition act (a : action) : M unit := fun w =>
  Ok tt {| w_trace := a :: w_trace w; w_live := w_live w; w_bytes := w_bytes w;
           w_allocs := w_allocs w; w_sends := w_sends w; w_now := w_now w |}.

Definition advance (d : N) : M unit := fun w =>
  Ok tt {| w_trace := w_trace w; w_live := w_live w; w_bytes := w_bytes w;
           w_allocs := w_allocs w; w_sends := w_sends w; w_now := w_now w + d |}.

Section Oracles.
  (* which lltd_port_malloc / lltd_port_send_frame calls fail, by call index *)
  Variable alloc_fails : N -> bool.
  Variable send_fails : N -> bool.

  (* lltd_port_malloc(n): true = a block was handed out *)
  Definition alloc (n : N) : M bool := fun w =>
    if alloc_fails (w_allocs w)
    then Ok false {| w_trace := w_trace w; w_live := w_live w; w_bytes := w_bytes w;
                     w_allocs := w_allocs w + 1; w_sends := w_sends w; w_now := w_now w |}
    else Ok true {| w_trace := w_trace w; w_live := S (w_live w); w_bytes := w_bytes w + n;
                    w_allocs := w_allocs w + 1; w_sends := w_sends w; w_now := w_now w |}.

  (* lltd_port_free of a live block of n bytes; releasing with nothing live is a fault *)
  Definition free (n : N) : M unit := fun w =>
    match w_live w with
    | O => Fault BadFree
    | S k => if w_bytes w <? n then Fault BadFree else
             Ok tt {| w_trace := w_trace w; w_live := k; w_bytes := w_bytes w - n;
                      w_allocs := w_allocs w; w_sends := w_sends w; w_now := w_now w |}
    end.

  (* lltd_port_send_frame(ctx, buf, len): reads len bytes of buf *)
  Definition send (ctx : N) (buf : list byte) (len : nat) : M bool := fun w =>
    if (len <=? length buf)%nat then
      let ok := negb (send_fails (w_sends w)) in
      Ok ok {| w_trace := Send ctx ok (firstn len buf) :: w_trace w; w_live := w_live w; w_bytes := w_bytes w;
               w_allocs := w_allocs w; w_sends := w_sends w + 1; w_now := w_now w |}
    else Fault OobRead.
End Oracles.

Definition no_fail : N -> bool := fun _ => false.
