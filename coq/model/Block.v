(* Block.v - lltdBlock.c: per-interface state, the frame handlers and the
   ToS/opcode dispatcher parseFrame, function by function, every allocation,
   release, sleep and transmit in the order of the C. *)
From LLTD Require Export World Tx.
Local Open Scope N_scope.

(* ---- the part of a received frame the handlers read at fixed offsets ---- *)
Record hdr := {
  h_edst : mac; h_esrc : mac; h_tos : N; h_opc : N; h_rdst : mac; h_rsrc : mac; h_seq : N;
  h_w0 : N;    (* 16-bit word right after the base header: generation / descriptor count *)
  h_b0 : N;    (* its first byte: QueryLargeTlv type *)
  h_w1 : N     (* next 16-bit word: station count / QueryLargeTlv offset *)
}.

Notation "x <-? e ;; f" := (match e with Some x => f | None => None end)
  (at level 61, e at next level, right associativity).

Definition parse_hdr (buf : list byte) : option hdr :=
  edst <-? rdmac buf (o of_edst) ;;
  esrc <-? rdmac buf (o of_esrc) ;;
  tos <-? rd8 buf (o of_tos) ;;
  opc <-? rd8 buf (o of_opcode) ;;
  rdst <-? rdmac buf (o of_rdst) ;;
  rsrc <-? rdmac buf (o of_rsrc) ;;
  seq <-? rd16 buf (o of_seq) ;;
  w0 <-? rd16 buf (o sz_hdr) ;;
  b0 <-? rd8 buf (o sz_hdr) ;;
  w1 <-? rd16 buf (o sz_hdr + 2) ;;
  Some {| h_edst := edst; h_esrc := esrc; h_tos := tos; h_opc := opc; h_rdst := rdst; h_rsrc := rsrc;
          h_seq := seq; h_w0 := w0; h_b0 := b0; h_w1 := w1 |}.

(* ---- lltd_iface_state ---- *)
Record obs := { o_type : N; o_rsrc : mac; o_esrc : mac; o_edst : mac }.   (* probe_t *)
Record ist := {
  see : list obs;               (* see_list, newest first; see_list_count = its length *)
  known : bool; mreal : mac; mapp : mac;
  mseq : N; gen_t : N; gen_q : N;
  icon : option (list byte)     (* small_icon / small_icon_size *)
}.
Definition fresh : ist :=
  {| see := []; known := false; mreal := zmac; mapp := zmac; mseq := 0; gen_t := 0; gen_q := 0; icon := None |}.

Definition with_see (s : ist) (l : list obs) : ist :=
  {| see := l; known := known s; mreal := mreal s; mapp := mapp s; mseq := mseq s; gen_t := gen_t s; gen_q := gen_q s; icon := icon s |}.
Definition with_seq (s : ist) (q : N) : ist :=
  {| see := see s; known := known s; mreal := mreal s; mapp := mapp s; mseq := q; gen_t := gen_t s; gen_q := gen_q s; icon := icon s |}.
Definition with_icon (s : ist) (i : option (list byte)) : ist :=
  {| see := see s; known := known s; mreal := mreal s; mapp := mapp s; mseq := mseq s; gen_t := gen_t s; gen_q := gen_q s; icon := i |}.
Definition with_mapper (s : ist) (r a : mac) : ist :=
  {| see := see s; known := true; mreal := r; mapp := a; mseq := mseq s; gen_t := gen_t s; gen_q := gen_q s; icon := icon s |}.

(* mapper_matches / set_active_mapper *)
Definition matches (s : ist) (h : hdr) : bool := negb (known s) || mac_eqb (mreal s) (h_rsrc h).
Definition set_active (s : ist) (h : hdr) : ist :=
  if known s then s else with_mapper s (h_rsrc h) (h_esrc h).
(* mapper_generation_for_tos *)
Definition get_gen (s : ist) (t : N) : N := if t =? tos_quick_discovery then gen_q s else gen_t s.
Definition set_gen (s : ist) (t g : N) : ist :=
  if t =? tos_quick_discovery
  then {| see := see s; known := known s; mreal := mreal s; mapp := mapp s; mseq := mseq s; gen_t := gen_t s; gen_q := g; icon := icon s |}
  else {| see := see s; known := known s; mreal := mreal s; mapp := mapp s; mseq := mseq s; gen_t := g; gen_q := gen_q s; icon := icon s |}.

(* wire form of one observation (lltd_probe_desc_wire_t, 20 bytes) *)
Definition desc_wire_size : N := 20.
Definition desc_bytes (ob : obs) : list byte :=
  be16 (o_type ob) ++ mac_bytes (o_rsrc ob) ++ mac_bytes (o_esrc ob) ++ mac_bytes (o_edst ob).

Record emitee := { d_type : N; d_pause : N; d_src : mac; d_dst : mac }.

Section Handlers.
  Variable alloc_fails : N -> bool.
  Variable send_fails : N -> bool.
  Variable junk : N.          (* what freshly allocated memory contains *)
  Variable ctx : N.           (* identifies the interface in the trace *)
  Variable c : pcfg.
  Variable g : gcfg.

  Notation alloc := (alloc alloc_fails).
  Notation send := (send send_fails).

  Definition wr {A} (x : option A) : M A := lift OobWrite x.
  Definition rdm {A} (x : option A) : M A := lift OobRead x.

  (* malloc(n) followed by memset(p, 0, n) *)
  Definition fresh_buf (n : N) : M (list byte) := wr (memset (repeat junk (o n)) 0 (o n)).

  Fixpoint free_n (k : nat) (size : N) : M unit :=
    match k with O => ret tt | S k' => free size ;;; free_n k' size end.

  (* ---- sendProbeMsg ---- *)
  Definition send_probe_msg (s : ist) (d : emitee) (ack : bool) : M unit :=
    ok <- alloc sz_hdr ;;
    if negb ok then ret tt else
    b0 <- fresh_buf sz_hdr ;;
    let code := if d_type d =? 1 then opcode_probe else opcode_train in
    b1 <- wr (set_header_ex b0 (d_src d) (d_dst d) (own c) (d_dst d) 0 code tos_discovery) ;;
    act (Sleep (d_pause d)) ;;;
    sent <- send ctx b1 (o sz_hdr) ;;
    if negb sent then free sz_hdr else
    (if ack then
       b2 <- wr (set_header_ex b1 (own c) (mapp s) (own c) (mreal s) (mseq s) opcode_ack tos_discovery) ;;
       send ctx b2 (o sz_hdr) ;;; ret tt
     else ret tt) ;;;
    free sz_hdr.

  (* ---- parseEmit ---- *)
  Definition read_emitee (buf : list byte) (off : nat) : option emitee :=
    t <-? rd8 buf (off + o of_emitee_type) ;;
    p <-? rd8 buf (off + o of_emitee_pause) ;;
    s <-? rdmac buf (off + o of_emitee_src) ;;
    d <-? rdmac buf (off + o of_emitee_dst) ;;
    Some {| d_type := t; d_pause := p; d_src := s; d_dst := d |}.

  (* descriptors i, i+1, ... of n; k = how many are left; uint16_t offsetEmitee *)
  Fixpoint emit_loop (s : ist) (buf : list byte) (k : nat) (i n : N) : M unit :=
    match k with
    | O => ret tt
    | S k' =>
      let off := (o sz_hdr + o sz_emit_hdr + o ((sz_emitee * i) mod 65536))%nat in
      d <- rdm (read_emitee buf off) ;;
      (if (d_type d =? 1) || (d_type d =? 0)
       then send_probe_msg s d (i =? n - 1)
       else ret tt) ;;;
      emit_loop s buf k' (i + 1) n
    end.

  Definition emit_fits (n : N) : bool :=
    match c_mtu c with
    | None => false
    | Some mtu => (sz_hdr + sz_emit_hdr <=? mtu) && (n <=? (mtu - sz_hdr - sz_emit_hdr) / sz_emitee)
    end.

  Definition parse_emit (s : ist) (h : hdr) (buf : list byte) : M ist :=
    let n := h_w0 h in
    if negb (emit_fits n) then ret s else
    let s1 := with_seq (set_active s h) (h_seq h) in
    emit_loop s1 buf (o n) 0 n ;;; ret s1.

  (* ---- parseProbe ---- *)
  Definition obs_key_eqb (a b : obs) : bool :=
    mac_eqb (o_esrc a) (o_esrc b) && mac_eqb (o_rsrc a) (o_rsrc b).

  Definition see_full (s : ist) : bool :=
    negb (LLTD_SEE_LIST_MAX =? 0) && (LLTD_SEE_LIST_MAX <=? N.of_nat (length (see s))).

  Definition parse_probe (s : ist) (h : hdr) : M ist :=
    if negb (mac_eqb (h_rdst h) (own c)) then ret s else
    if see_full s then ret s else
    ok <- alloc sz_probe_node ;;
    if negb ok then ret s else
    let ob := {| o_type := if h_opc h =? opcode_probe then 1 else 0;
                 o_rsrc := h_rsrc h; o_esrc := h_esrc h; o_edst := h_edst h |} in
    if existsb (obs_key_eqb ob) (see s)
    then free sz_probe_node ;;; ret s
    else ret (with_see s (ob :: see s)).

  (* ---- parseQuery ---- *)
  Fixpoint query_loop (b : list byte) (off : nat) (l : list obs) (remaining : nat) (mtu : nat)
    : option (list byte * nat * nat) :=
    match l, remaining with
    | ob :: l', S r =>
      if (mtu <? off + o desc_wire_size)%nat then Some (b, off, remaining) else
      b' <-? poke b off (desc_bytes ob) ;;
      query_loop b' (off + o desc_wire_size)%nat l' r mtu
    | _, _ => Some (b, off, remaining)
    end.

  Definition reply_dst (h : hdr) : mac :=
    if mac_eqb (h_rsrc h) (h_esrc h) then h_rsrc h else bcast.

  Definition parse_query (s : ist) (h : hdr) : M ist :=
    let s1 := with_mapper (with_seq s (h_seq h)) (h_rsrc h) (h_esrc h) in
    let mtu := mtu_or_default c in
    ok <- alloc mtu ;;
    if negb ok then ret s1 else
    b0 <- fresh_buf mtu ;;
    b1 <- wr (set_header b0 (own c) (reply_dst h) (mseq s1) opcode_queryResp tos_discovery) ;;
    let max_descs := if sz_hdr + sz_qresp_hdr <? mtu then (mtu - sz_hdr - sz_qresp_hdr) / desc_wire_size else 0 in
    let cnt := N.of_nat (length (see s1)) in
    let num := (if max_descs <? cnt then max_descs else cnt) mod 65536 in
    let more := if num <? cnt then 32768 else 0 in
    b2 <- wr (poke b1 (o sz_hdr) (be16 (N.lor num more))) ;;
    r <- wr (query_loop b2 (o sz_hdr + o sz_qresp_hdr) (see s1) (o num) (o mtu)) ;;
    let '(b3, off, remaining) := r in
    send ctx b3 off ;;;
    free mtu ;;;
    let reported := (o num - remaining)%nat in
    let reported := Nat.min reported (length (see s1)) in
    free_n reported sz_probe_node ;;;
    ret (with_see s1 (skipn reported (see s1))).

  (* ---- sendLargeTlvResponse ---- *)
  Definition slice (data : list byte) (off len : nat) : option (list byte) :=
    if (off + len <=? length data)%nat then Some (firstn len (skipn off data)) else None.

  Definition send_large_tlv (s : ist) (h : hdr) (data : option (list byte)) (dsize : N) (off : N) : M unit :=
    let mtu := mtu_or_default c in
    let maxp := if sz_hdr + sz_qltresp_hdr <? mtu then (mtu - sz_hdr - sz_qltresp_hdr) mod 65536 else 0 in
    let bsize := sz_hdr + sz_qltresp_hdr + maxp in
    ok <- alloc bsize ;;
    if negb ok then ret tt else
    b0 <- fresh_buf bsize ;;
    b1 <- wr (set_header b0 (own c) (reply_dst h) (mseq s) opcode_queryLargeTlvResp tos_discovery) ;;
    let '(btw, lenfield) :=
      match data with
      | None => (0, 0)
      | Some _ =>
        if dsize =? 0 then (0, 0)
        else if off + maxp <? dsize then (maxp, N.lor maxp 32768)
        else if off <? dsize then ((dsize - off) mod 65536, (dsize - off) mod 65536)
        else (0, 0)
      end in
    b2 <- wr (poke b1 (o sz_hdr) (be16 lenfield)) ;;
    b3 <- (if 0 <? btw then
             match data with
             | Some d => chunk <- rdm (slice d (o off) (o btw)) ;; wr (poke b2 (o sz_hdr + o sz_qltresp_hdr) chunk)
             | None => ret b2
             end
           else ret b2) ;;
    send ctx b3 (o sz_hdr + o sz_qltresp_hdr + o btw) ;;;
    free bsize.

  (* ---- parseQueryLargeTlv ---- *)
  Definition hwid_scratch : list byte :=
    let w := firstn 64 (g_hwid g) in w ++ zeros (64 - length w).
  Fixpoint hwid_scan (l : list byte) (i : N) : N :=
    match l with
    | a :: b :: r => if (a =? 0) && (b =? 0) then i else hwid_scan r (i + 2)
    | _ => 64
    end.

  Definition parse_qlt (s : ist) (h : hdr) : M ist :=
    if h_seq h =? 0 then ret s else
    let s1 := with_seq (set_active s h) (h_seq h) in
    let off := h_w1 h in
    let ty := h_b0 h in
    if ty =? tlv_iconImage then
      (* cached for the session; the port allocates, the Reset releases *)
      match icon s1 with
      | Some d => send_large_tlv s1 h (Some d) (N.of_nat (length d)) off ;;; ret s1
      | None =>
        match g_icon g with
        | None => send_large_tlv s1 h None 0 off ;;; ret s1
        | Some d =>
          got <- alloc (N.of_nat (length d)) ;;
          if got then
            let s2 := with_icon s1 (Some d) in
            send_large_tlv s2 h (Some d) (N.of_nat (length d)) off ;;; ret s2
          else send_large_tlv s1 h None 0 off ;;; ret s1
        end
      end
    else if ty =? tlv_friendlyName then
      match g_fname g with
      | None => send_large_tlv s1 h None 0 off ;;; ret s1
      | Some d =>
        got <- alloc (N.of_nat (length d)) ;;
        if got then
          send_large_tlv s1 h (Some d) (N.of_nat (length d)) off ;;;
          free (N.of_nat (length d)) ;;; ret s1
        else send_large_tlv s1 h None 0 off ;;; ret s1
      end
    else if ty =? tlv_hwIdProperty then
      got <- alloc 64 ;;
      if got then
        send_large_tlv s1 h (Some hwid_scratch) (hwid_scan hwid_scratch 0) off ;;;
        free 64 ;;; ret s1
      else send_large_tlv s1 h None 0 off ;;; ret s1
    else send_large_tlv s1 h None 0 off ;;; ret s1.

  (* ---- answerHello ---- *)
  Definition answer_hello (s : ist) (h : hdr) : M ist :=
    let mtu := mtu_or_default c in
    ok <- alloc mtu ;;
    if negb ok then ret s else
    b0 <- fresh_buf mtu ;;
    let s1 := with_seq (set_active s h) (h_seq h) in
    let dg := h_w0 h in
    let s2 := if (get_gen s1 (h_tos h) =? 0) && negb (dg =? 0) then set_gen s1 (h_tos h) dg else s1 in
    b1 <- wr (set_header b0 (own c) bcast 0 opcode_hello (h_tos h)) ;;
    b2 <- wr (set_hello_header b1 (o sz_hdr) (h_esrc h) (h_rsrc h) (get_gen s2 (h_tos h))) ;;
    r <- wr (emits (b2, (o sz_hdr + o sz_hello_hdr)%nat) (hello_tlvs c g)) ;;
    send ctx (fst r) (snd r) ;;;
    free mtu ;;;
    ret s2.

  (* ---- Reset arms ---- *)
  Definition do_reset_topology (s : ist) : M ist :=
    free_n (length (see s)) sz_probe_node ;;;
    (match icon s with Some d => free (N.of_nat (length d)) | None => ret tt end) ;;;
    ret {| see := []; known := false; mreal := mreal s; mapp := mapp s; mseq := 0; gen_t := 0; gen_q := 0; icon := None |}.
  Definition do_reset_quick (s : ist) : ist :=
    {| see := see s; known := false; mreal := mreal s; mapp := mapp s; mseq := mseq s; gen_t := gen_t s; gen_q := 0; icon := icon s |}.

  (* ---- parseFrame, for an interface whose record exists ---- *)
  Definition is_discovery_tos (t : N) : bool := (t =? tos_discovery) || (t =? tos_quick_discovery).

  (* Discover pre-step; None = the frame is dropped there *)
  Definition pre_step (s : ist) (h : hdr) : option ist :=
    if is_discovery_tos (h_tos h) && (h_opc h =? opcode_discover) then
      if matches s h then Some (set_gen (set_active s h) (h_tos h) (h_w0 h)) else None
    else Some s.

  Definition dispatch (s : ist) (h : hdr) (buf : list byte) : M ist :=
    if h_tos h =? tos_discovery then
      if h_opc h =? opcode_discover then
        (if matches s h then act (Sleep 10) ;;; answer_hello s h else ret s)
      else if h_opc h =? opcode_emit then parse_emit s h buf
      else if (h_opc h =? opcode_train) || (h_opc h =? opcode_probe) then parse_probe s h
      else if h_opc h =? opcode_query then parse_query s h
      else if h_opc h =? opcode_queryLargeTlv then parse_qlt s h
      else if h_opc h =? opcode_reset then do_reset_topology s
      else ret s
    else if h_tos h =? tos_quick_discovery then
      if h_opc h =? opcode_discover then
        (if matches s h then answer_hello s h else ret s)
      else if h_opc h =? opcode_queryLargeTlv then parse_qlt s h
      else if h_opc h =? opcode_reset then ret (do_reset_quick s)
      else ret s
    else ret s.

  Definition parse_frame_st (s : ist) (buf : list byte) : M ist :=
    h <- rdm (parse_hdr buf) ;;
    match pre_step s h with
    | None => ret s
    | Some s1 => dispatch s1 h buf
    end.
End Handlers.

(* ---- the registry g_iface_states and parseFrame proper ---- *)
Definition registry := list (N * ist).
Fixpoint reg_find (r : registry) (ctx : N) : option ist :=
  match r with
  | [] => None
  | (k, s) :: r' => if k =? ctx then Some s else reg_find r' ctx
  end.
Fixpoint reg_set (r : registry) (ctx : N) (s : ist) : registry :=
  match r with
  | [] => [(ctx, s)]
  | (k, s0) :: r' => if k =? ctx then (k, s) :: r' else (k, s0) :: reg_set r' ctx s
  end.

Definition parse_frame (af sf : N -> bool) (junk ctx : N) (c : pcfg) (g : gcfg) (r : registry) (buf : list byte) : M registry :=
  match reg_find r ctx with
  | Some s => s' <- parse_frame_st af sf junk ctx c g s buf ;; ret (reg_set r ctx s')
  | None =>
    ok <- alloc af sz_iface_state ;;
    if negb ok then ret r else
    s' <- parse_frame_st af sf junk ctx c g fresh buf ;; ret (reg_set r ctx s')
  end.
