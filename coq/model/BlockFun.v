(* BlockFun.v - the frame handlers as a pure function: what parseFrame does to
   the per-interface state and which port calls it makes when the platform
   behaves nominally (no failing allocation or transmit, MTU available).
   proofs/BlockNominal.v shows that the instrumented, buffer-level model of
   Block.v computes exactly this; the property proofs then work on this layer. *)
From LLTD Require Export Block.
Local Open Scope N_scope.

Section Fun.
  Variable ctx : N.
  Variable c : pcfg.
  Variable g : gcfg.
  Variable mtu : N.    (* what lltd_port_get_mtu reports *)

  Definition tx (fr : list byte) : action := Send ctx true fr.

  (* ---- frames ---- *)
  Definition hello_frame (h : hdr) (gen : N) : list byte :=
    header_bytes (own c) bcast (own c) bcast 0 opcode_hello (h_tos h)
    ++ be16 gen ++ mac_bytes (h_rsrc h) ++ mac_bytes (h_esrc h)
    ++ concat (hello_tlvs c g).
  Definition probe_frame (d : emitee) : list byte :=
    header_bytes (d_src d) (d_dst d) (own c) (d_dst d) 0
                 (if d_type d =? 1 then opcode_probe else opcode_train) tos_discovery.
  Definition ack_frame (s : ist) : list byte :=
    header_bytes (own c) (mapp s) (own c) (mreal s) (mseq s) opcode_ack tos_discovery.
  Definition qresp_frame (h : hdr) (seq : N) (reported : list obs) (more : bool) : list byte :=
    header_bytes (own c) (reply_dst h) (own c) (reply_dst h) seq opcode_queryResp tos_discovery
    ++ be16 (N.of_nat (length reported) + (if more then 32768 else 0))
    ++ concat (map desc_bytes reported).
  Definition qlt_frame (h : hdr) (seq : N) (chunk : list byte) (more : bool) : list byte :=
    header_bytes (own c) (reply_dst h) (own c) (reply_dst h) seq opcode_queryLargeTlvResp tos_discovery
    ++ be16 (N.of_nat (length chunk) + (if more then 32768 else 0))
    ++ chunk.

  (* ---- handlers ---- *)
  Definition f_answer_hello (s : ist) (h : hdr) : ist * list action :=
    let s1 := with_seq (set_active s h) (h_seq h) in
    let s2 := if (get_gen s1 (h_tos h) =? 0) && negb (h_w0 h =? 0) then set_gen s1 (h_tos h) (h_w0 h) else s1 in
    (s2, [tx (hello_frame h (get_gen s2 (h_tos h)))]).

  (* descriptors that are of a known kind are executed; the acknowledgement rides on the last declared index *)
  Definition f_emit_one (s : ist) (d : emitee) (last : bool) : list action :=
    if (d_type d =? 1) || (d_type d =? 0)
    then [Sleep (d_pause d); tx (probe_frame d)] ++ (if last then [tx (ack_frame s)] else [])
    else [].
  Fixpoint f_emit_all (s : ist) (ds : list emitee) : list action :=
    match ds with
    | [] => []
    | d :: r => f_emit_one s d (match r with [] => true | _ => false end) ++ f_emit_all s r
    end.
  (* the n descriptors of an Emit frame, read from the buffer *)
  Fixpoint read_descs (buf : list byte) (k : nat) (i : N) : option (list emitee) :=
    match k with
    | O => Some []
    | S k' =>
      match read_emitee buf (o sz_hdr + o sz_emit_hdr + o ((sz_emitee * i) mod 65536))%nat, read_descs buf k' (i + 1) with
      | Some d, Some r => Some (d :: r)
      | _, _ => None
      end
    end.
  Definition f_parse_emit (s : ist) (h : hdr) (buf : list byte) : ist * list action :=
    let n := h_w0 h in
    if negb ((sz_hdr + sz_emit_hdr <=? mtu) && (n <=? (mtu - sz_hdr - sz_emit_hdr) / sz_emitee)) then (s, []) else
    let s1 := with_seq (set_active s h) (h_seq h) in
    match read_descs buf (o n) 0 with
    | Some ds => (s1, f_emit_all s1 ds)
    | None => (s1, [])       (* unreachable when the buffer is MTU bytes long *)
    end.

  Definition f_parse_probe (s : ist) (h : hdr) : ist :=
    if negb (mac_eqb (h_rdst h) (own c)) then s else
    if see_full s then s else
    let ob := {| o_type := if h_opc h =? opcode_probe then 1 else 0;
                 o_rsrc := h_rsrc h; o_esrc := h_esrc h; o_edst := h_edst h |} in
    if existsb (obs_key_eqb ob) (see s) then s else with_see s (ob :: see s).

  Definition qcap : nat := o ((mtu - sz_hdr - sz_qresp_hdr) / desc_wire_size).
  Definition f_parse_query (s : ist) (h : hdr) : ist * list action :=
    let s1 := with_mapper (with_seq s (h_seq h)) (h_rsrc h) (h_esrc h) in
    let reported := firstn qcap (see s1) in
    (with_see s1 (skipn qcap (see s1)),
     [tx (qresp_frame h (h_seq h) reported (qcap <? length (see s1))%nat)]).

  Definition payload_max : N := mtu - sz_hdr - sz_qltresp_hdr.
  (* one QueryLargeTlvResp for [data] (the platform's bytes; [] when there are none) at [off] *)
  Definition f_large_tlv (h : hdr) (seq : N) (data : list byte) (off : N) : list action :=
    let size := N.of_nat (length data) in
    if off + payload_max <? size then [tx (qlt_frame h seq (firstn (o payload_max) (skipn (o off) data)) true)]
    else [tx (qlt_frame h seq (skipn (o off) data) false)].

  Definition hwid_value : list byte := firstn (o (hwid_scan (hwid_scratch g) 0)) (hwid_scratch g).

  Definition f_parse_qlt (s : ist) (h : hdr) : ist * list action :=
    if h_seq h =? 0 then (s, []) else
    let s1 := with_seq (set_active s h) (h_seq h) in
    let off := h_w1 h in
    let ty := h_b0 h in
    if ty =? tlv_iconImage then
      match icon s1 with
      | Some d => (s1, f_large_tlv h (h_seq h) d off)
      | None =>
        match g_icon g with
        | None => (s1, f_large_tlv h (h_seq h) [] off)
        | Some d => (with_icon s1 (Some d), f_large_tlv h (h_seq h) d off)
        end
      end
    else if ty =? tlv_friendlyName then
      (s1, f_large_tlv h (h_seq h) (match g_fname g with Some d => d | None => [] end) off)
    else if ty =? tlv_hwIdProperty then (s1, f_large_tlv h (h_seq h) hwid_value off)
    else (s1, f_large_tlv h (h_seq h) [] off).

  Definition f_reset_topology (s : ist) : ist :=
    {| see := []; known := false; mreal := mreal s; mapp := mapp s; mseq := 0; gen_t := 0; gen_q := 0; icon := None |}.

  Definition f_dispatch (s : ist) (h : hdr) (buf : list byte) : ist * list action :=
    if h_tos h =? tos_discovery then
      if h_opc h =? opcode_discover then
        (if matches s h then let '(s', a) := f_answer_hello s h in (s', Sleep 10 :: a) else (s, []))
      else if h_opc h =? opcode_emit then f_parse_emit s h buf
      else if (h_opc h =? opcode_train) || (h_opc h =? opcode_probe) then (f_parse_probe s h, [])
      else if h_opc h =? opcode_query then f_parse_query s h
      else if h_opc h =? opcode_queryLargeTlv then f_parse_qlt s h
      else if h_opc h =? opcode_reset then (f_reset_topology s, [])
      else (s, [])
    else if h_tos h =? tos_quick_discovery then
      if h_opc h =? opcode_discover then (if matches s h then f_answer_hello s h else (s, []))
      else if h_opc h =? opcode_queryLargeTlv then f_parse_qlt s h
      else if h_opc h =? opcode_reset then (do_reset_quick s, [])
      else (s, [])
    else (s, []).

  (* parseFrame on an interface whose record is [s]; actions in the order they happen *)
  Definition f_step (s : ist) (buf : list byte) : ist * list action :=
    match parse_hdr buf with
    | None => (s, [])
    | Some h =>
      match pre_step s h with
      | None => (s, [])
      | Some s1 => f_dispatch s1 h buf
      end
    end.
End Fun.

(* ---- what an interface record holds in the allocation ledger besides itself ---- *)
Definition held_count (s : ist) : nat :=
  (length (see s) + match icon s with Some _ => 1 | None => 0 end)%nat.
Definition held_bytes (s : ist) : N :=
  sz_probe_node * N.of_nat (length (see s)) + match icon s with Some d => N.of_nat (length d) | None => 0 end.
(* the ledger of world [w] = a base (everything else that is live) + what record [s] holds *)
Definition ledger_frame (bl : nat) (bb : N) (s : ist) (w : world) : Prop :=
  w_live w = (bl + held_count s)%nat /\ w_bytes w = bb + held_bytes s.

(* the active mapper, as the property speaks of it *)
Definition active (s : ist) : option mac := if known s then Some (mreal s) else None.

(* C09: the stored mapper addresses are dead while no mapper is known *)
Definition norm (s : ist) : ist :=
  if known s then s else
  {| see := see s; known := false; mreal := zmac; mapp := zmac; mseq := mseq s; gen_t := gen_t s; gen_q := gen_q s; icon := icon s |}.

(* a history of frames on one interface, pure layer *)
Fixpoint f_run (ctx : N) (c : pcfg) (g : gcfg) (mtu : N) (s : ist) (bufs : list (list byte)) : ist * list action :=
  match bufs with
  | [] => (s, [])
  | b :: r => let '(s1, a1) := f_step ctx c g mtu s b in
              let '(s2, a2) := f_run ctx c g mtu s1 r in (s2, a1 ++ a2)
  end.
