(* Sys.v - the operations of the scenario language (DESIGN.md 4.2) over the
   whole modelled system: per-interface configurations, the core's interface
   registry, one set of automata per interface; plus the small port-side
   pieces the properties anchor (ESP32 entry point, the Darwin per-frame flow,
   the Linux getters). *)
From LLTD Require Export Block Automata.
Local Open Scope N_scope.

(* ---- os/esp32/daemon/lltd_esp32.c: lltd_esp32_handle_frame ---- *)
(* None = a read outside the [len]-byte buffer *)
Definition esp32_handle (buf : list byte) (len : N) (now_s : N) (a : aset) : option aset :=
  if len <? sz_hdr then Some a else
  match rd8 buf (o of_opcode) with
  | None => None
  | Some opc =>
    let ev := if opc =? opcode_hello then enum_hello
              else if opc =? opcode_discover then enum_new_session else enum_sess_complete in
    Some {| a_map := switch_mapping (a_map a) now_s (Zc opc); a_mst := a_mst a;
            a_sess := switch_session (a_sess a) now_s (Zc opc);
            a_enum := switch_enum (a_enum a) now_s (Zc ev);
            a_band := a_band a; a_tbl := a_tbl a; a_ltx := a_ltx a |}
  end.

(* ---- os/linux/lltd_port.c: the getters that copy from network_interface_t ---- *)
Record linux_iface := { li_mac : mac; li_mtu : N; li_iftype : N; li_speed : N; li_medium : N; li_flags : N }.
Definition IFM_FDX : N := 16.
Definition IFF_LOOPBACK : N := 8.
Definition linux_flags (i : linux_iface) : N :=
  (if N.land (li_medium i) IFM_FDX =? 0 then 0 else Config_TLV_NetworkInterfaceDuplex_Value)
  + (if N.land (li_flags i) IFF_LOOPBACK =? 0 then 0 else Config_TLV_InterfaceIsLoopback_Value).
Definition linux_getters (i : linux_iface) : mac * N * N * N * N :=
  (li_mac i, li_mtu i, li_iftype i, (li_speed i mod W32) / 100, linux_flags i).

(* ---- the Darwin daemon's per-frame flow (darwin-main.c, automata_runtime.md) ---- *)
Definition set_tbl (a : aset) (t : stable) : aset :=
  {| a_map := a_map a; a_mst := a_mst a; a_sess := a_sess a; a_enum := a_enum a; a_band := a_band a; a_tbl := t; a_ltx := a_ltx a |}.

Definition flow_table (now_s : N) (h : hdr) (ev : Z) (t : stable) : stable :=
  if h_opc h =? opcode_discover then
    let '(t1, oi) := st_add t now_s (h_rsrc h) (h_w0 h) (h_seq h) in
    st_update_status
      (match oi with
       | Some i =>
         {| t_slots := upd_nth (t_slots t1) i (fun s =>
              {| s_mac := s_mac s; s_gen := s_gen s; s_seq := s_seq s; s_state := Z.to_N (ev mod 256)%Z;
                 s_complete := s_complete s || (ev =? Zc sess_discover_acking)%Z || (ev =? Zc sess_discover_acking_chgd_xid)%Z;
                 s_valid := s_valid s; s_last := now_s; s_created := s_created s |});
            t_count := t_count t1; t_allc := t_allc t1 |}
       | None => t1
       end)
  else if h_opc h =? opcode_reset then st_clear t
  else t.

Definition flow_automata (now_ms : N) (h : hdr) (ev : Z) (a : aset) : aset :=
  let now_s := now_ms / 1000 in
  let t1 := flow_table now_s h ev (a_tbl a) in
  let m1 := switch_mapping (a_map a) now_s (Zc (h_opc h)) in
  let t2 := if negb (a_cur (a_map a) =? 0) && (a_cur m1 =? 0) then st_clear t1 else t1 in
  let ms1 := map_touch now_s (a_mst a) in
  let ms2 := if h_opc h =? opcode_charge then map_on_charge now_s ms1 else ms1 in
  let s1 := if (0 <=? ev)%Z then switch_session (a_sess a) now_s ev else a_sess a in
  let '(e1, b1) :=
    if h_opc h =? opcode_hello then
      (switch_enum (a_enum a) now_s (Zc enum_hello), band_on_hello (a_band a))
    else if h_opc h =? opcode_discover then
      (switch_enum (a_enum a) now_s (Zc enum_new_session),
       if a_cur (a_enum a) =? 0 then band_choose now_ms (band_init now_ms (a_band a))
       else {| b_ni := b_ni (a_band a); b_r := b_r (a_band a); b_begun := true; b_hts := b_hts (a_band a); b_bts := b_bts (a_band a) |})
    else (a_enum a, a_band a) in
  {| a_map := m1; a_mst := ms2; a_sess := s1; a_enum := e1; a_band := b1; a_tbl := t2; a_ltx := a_ltx a |}.

(* ================= the system and its operations ================= *)
Record sys := {
  y_cfgs : list (N * pcfg);
  y_g : gcfg;
  y_reg : registry;
  y_as : list (N * aset)
}.

Definition default_cfg (ctx : N) : pcfg :=
  {| c_rxsize := 1500; c_mtu := Some 1500; c_mac := Some (Mac 2 0 0 0 0 (16 + ctx)); c_flags := 0;
     c_iftype := Some 6; c_ipv4 := Some 0; c_ipv6 := Some (zeros 16); c_speed := Some 1000000;
     c_wifi := None; c_bssid := Some zmac; c_ssid := []; c_rate := Some 0; c_rssi := Some 0%Z |}.
Definition default_g : gcfg := {| g_host := []; g_icon := None; g_fname := None; g_hwid := []; g_retfull := false |}.
Definition sys0 : sys := {| y_cfgs := []; y_g := default_g; y_reg := []; y_as := [] |}.

Fixpoint assoc {A} (l : list (N * A)) (k : N) : option A :=
  match l with [] => None | (k', v) :: r => if k' =? k then Some v else assoc r k end.
Fixpoint assoc_set {A} (l : list (N * A)) (k : N) (v : A) : list (N * A) :=
  match l with
  | [] => [(k, v)]
  | (k', v') :: r => if k' =? k then (k', v) :: r else (k', v') :: assoc_set r k v
  end.
Definition cfg_of (y : sys) (ctx : N) : pcfg := match assoc (y_cfgs y) ctx with Some c => c | None => default_cfg ctx end.
Definition aset_of (y : sys) (ctx : N) : aset := match assoc (y_as y) ctx with Some a => a | None => aset0 end.
Definition set_aset (y : sys) (ctx : N) (a : aset) : sys :=
  {| y_cfgs := y_cfgs y; y_g := y_g y; y_reg := y_reg y; y_as := assoc_set (y_as y) ctx a |}.
Definition set_reg (y : sys) (r : registry) : sys :=
  {| y_cfgs := y_cfgs y; y_g := y_g y; y_reg := r; y_as := y_as y |}.

(* receive buffer as the daemons make it: rxsize bytes, the frame at the front, stale bytes behind *)
Definition mk_rxbuf (c : pcfg) (fill : N) (bytes : list byte) : list byte :=
  let n := o (c_rxsize c) in
  let fr := firstn n bytes in
  fr ++ repeat fill (n - length fr).

(* what recvfrom(..., rxsize) reports for a frame of [bytes] on the wire *)
Definition rx_len (c : pcfg) (bytes : list byte) : N := N.min (N.of_nat (length bytes)) (c_rxsize c).

Inductive ctor_kind := KMapping | KSession | KEnumeration | KTable.

Inductive op :=
| OCfg (ctx : N) (c : pcfg)
| OGcfg (g : gcfg)
| OAdv (ms : N)
| OFrame (ctx : N) (fill : N) (bytes : list byte)
| OClassify (ctx : N) (fill : N) (bytes : list byte)
| OEsp32 (ctx : N) (len : N) (bytes : list byte)
| OFlow (ctx : N) (fill : N) (bytes : list byte)
| OTick (ctx : N)
| OMk (ctx : N)
| OCtor (k : ctor_kind)
| OSsMap (ctx : N) (input : Z)
| OSsSess (ctx : N) (input : Z)
| OSsEnum (ctx : N) (input : Z)
| OSetMap (ctx : N) (st : N) (last : N)
| OSetSess (ctx : N) (st : N) (last : N)
| OSetEnum (ctx : N) (st : N)
| OStAdd (ctx : N) (m : mac) (gen seq : N)
| OStFind (ctx : N) (m : mac) (gen : N)
| OStRemove (ctx : N) (m : mac) (gen : N)
| OStComplete (ctx : N) (m : mac) (gen : N) (v : bool)
| OStClear (ctx : N)
| OBandInit (ctx : N)
| OBandHello (ctx : N)
| OBandUpdate (ctx : N)
| OBandChoose (ctx : N)
| OBandDoHello (ctx : N)
| OBandSet (ctx : N) (r ni : N) (begun : bool)
| OMapCharge (ctx : N)
| OMapTouch (ctx : N)
| OMapResetCharge (ctx : N).

(* value an operation reports besides the state *)
Inductive opret := RNone | RInt (z : Z) | RCtor (obj extra : bool) (st : N).

Definition idx_ret (oi : option nat) : opret :=
  match oi with Some i => RInt (Z.of_nat i) | None => RInt (-1)%Z end.

Definition upd_a (y : sys) (ctx : N) (f : aset -> aset) : sys := set_aset y ctx (f (aset_of y ctx)).

Section Run.
  Variable af sf : N -> bool.
  Variable junk : N.

  (* the constructors of lltdAutomata.c: allocation behaviour only *)
  Definition run_ctor (k : ctor_kind) : M opret :=
    match k with
    | KMapping =>
      a <- alloc af sz_automata ;;
      if negb a then ret (RCtor false false 0) else
      e <- alloc af sz_mapping_state ;;
      (* harness releases what it got *)
      (if e then free sz_mapping_state else ret tt) ;;; free sz_automata ;;;
      ret (RCtor true e mapping_init)
    | KSession =>
      a <- alloc af sz_automata ;;
      if negb a then ret (RCtor false false 0) else
      free sz_automata ;;; ret (RCtor true false session_init)
    | KEnumeration =>
      a <- alloc af sz_automata ;;
      if negb a then ret (RCtor false false 0) else
      e <- alloc af sz_band_state ;;
      if negb e then free sz_automata ;;; ret (RCtor false false 0) else
      free sz_band_state ;;; free sz_automata ;;; ret (RCtor true true enumeration_init)
    | KTable =>
      a <- alloc af sz_session_table ;;
      if negb a then ret (RCtor false false 0) else
      free sz_session_table ;;; ret (RCtor true false 0)
    end.

  Definition run_op (y : sys) (p : op) : M (sys * opret) :=
    match p with
    | OCfg ctx c => ret ({| y_cfgs := assoc_set (y_cfgs y) ctx c; y_g := y_g y; y_reg := y_reg y; y_as := y_as y |}, RNone)
    | OGcfg g => ret ({| y_cfgs := y_cfgs y; y_g := g; y_reg := y_reg y; y_as := y_as y |}, RNone)
    | OAdv ms => advance ms ;;; ret (y, RNone)
    | OFrame ctx fill bytes =>
      let c := cfg_of y ctx in
      r <- parse_frame af sf junk ctx c (y_g y) (y_reg y) (mk_rxbuf c fill bytes) ;;
      ret (set_reg y r, RNone)
    | OClassify ctx fill bytes =>
      let c := cfg_of y ctx in
      ev <- lift OobRead (classify (mk_rxbuf c fill bytes) (rx_len c bytes) (a_tbl (aset_of y ctx)) (own c)) ;;
      ret (y, RInt ev)
    | OEsp32 ctx len bytes =>
      now <- now_s ;;
      let buf := let fr := firstn (o len) bytes in fr ++ zeros (o len - length fr) in
      a <- lift OobRead (esp32_handle buf len now (aset_of y ctx)) ;;
      ret (set_aset y ctx a, RNone)
    | OFlow ctx fill bytes =>
      let c := cfg_of y ctx in
      let buf := mk_rxbuf c fill bytes in
      now <- now_ms ;;
      ev <- lift OobRead (classify buf (rx_len c bytes) (a_tbl (aset_of y ctx)) (own c)) ;;
      h <- lift OobRead (parse_hdr buf) ;;
      let a1 := flow_automata now h ev (aset_of y ctx) in
      r <- parse_frame af sf junk ctx c (y_g y) (y_reg y) buf ;;
      a2 <- tick ctx a1 ;;
      ret (set_aset (set_reg y r) ctx a2, RNone)
    | OTick ctx => a <- tick ctx (aset_of y ctx) ;; ret (set_aset y ctx a, RNone)
    | OMk ctx =>
      (* init_automata_mapping/session/enumeration + session_table_create: six allocations *)
      alloc af sz_automata ;;; alloc af sz_mapping_state ;;; alloc af sz_automata ;;;
      alloc af sz_automata ;;; alloc af sz_band_state ;;; alloc af sz_session_table ;;;
      now <- now_s ;;
      ret (set_aset y ctx
             {| a_map := {| a_cur := mapping_init; a_last := now |}; a_mst := mstate0;
                a_sess := {| a_cur := session_init; a_last := now |};
                a_enum := {| a_cur := enumeration_init; a_last := now |};
                a_band := band0; a_tbl := table0; a_ltx := 0 |}, RNone)
    | OCtor k => r <- run_ctor k ;; ret (y, r)
    | OSsMap ctx i => now <- now_s ;; ret (upd_a y ctx (fun a =>
        {| a_map := switch_mapping (a_map a) now i; a_mst := a_mst a; a_sess := a_sess a; a_enum := a_enum a;
           a_band := a_band a; a_tbl := a_tbl a; a_ltx := a_ltx a |}), RNone)
    | OSsSess ctx i => now <- now_s ;; ret (upd_a y ctx (fun a =>
        {| a_map := a_map a; a_mst := a_mst a; a_sess := switch_session (a_sess a) now i; a_enum := a_enum a;
           a_band := a_band a; a_tbl := a_tbl a; a_ltx := a_ltx a |}), RNone)
    | OSsEnum ctx i => now <- now_s ;; ret (upd_a y ctx (fun a =>
        {| a_map := a_map a; a_mst := a_mst a; a_sess := a_sess a; a_enum := switch_enum (a_enum a) now i;
           a_band := a_band a; a_tbl := a_tbl a; a_ltx := a_ltx a |}), RNone)
    | OSetMap ctx st last => ret (upd_a y ctx (fun a =>
        {| a_map := {| a_cur := st; a_last := last |}; a_mst := a_mst a; a_sess := a_sess a; a_enum := a_enum a;
           a_band := a_band a; a_tbl := a_tbl a; a_ltx := a_ltx a |}), RNone)
    | OSetSess ctx st last => ret (upd_a y ctx (fun a =>
        {| a_map := a_map a; a_mst := a_mst a; a_sess := {| a_cur := st; a_last := last |}; a_enum := a_enum a;
           a_band := a_band a; a_tbl := a_tbl a; a_ltx := a_ltx a |}), RNone)
    | OSetEnum ctx st => ret (upd_a y ctx (fun a =>
        {| a_map := a_map a; a_mst := a_mst a; a_sess := a_sess a; a_enum := {| a_cur := st; a_last := a_last (a_enum a) |};
           a_band := a_band a; a_tbl := a_tbl a; a_ltx := a_ltx a |}), RNone)
    | OStAdd ctx m gen seq => now <- now_s ;;
        let '(t, oi) := st_add (a_tbl (aset_of y ctx)) now m gen seq in
        ret (upd_a y ctx (fun a => set_tbl a t), idx_ret oi)
    | OStFind ctx m gen => ret (y, idx_ret (st_find (a_tbl (aset_of y ctx)) m gen))
    | OStRemove ctx m gen => ret (upd_a y ctx (fun a => set_tbl a (st_remove (a_tbl a) m gen)), RNone)
    | OStComplete ctx m gen v =>
        let '(t, oi) := st_set_complete (a_tbl (aset_of y ctx)) m gen v in
        ret (upd_a y ctx (fun a => set_tbl a t), idx_ret oi)
    | OStClear ctx => ret (upd_a y ctx (fun a => set_tbl a (st_clear (a_tbl a))), RNone)
    | OBandInit ctx => now <- now_ms ;; ret (upd_a y ctx (fun a =>
        {| a_map := a_map a; a_mst := a_mst a; a_sess := a_sess a; a_enum := a_enum a;
           a_band := band_init now (a_band a); a_tbl := a_tbl a; a_ltx := a_ltx a |}), RNone)
    | OBandHello ctx => ret (upd_a y ctx (fun a =>
        {| a_map := a_map a; a_mst := a_mst a; a_sess := a_sess a; a_enum := a_enum a;
           a_band := band_on_hello (a_band a); a_tbl := a_tbl a; a_ltx := a_ltx a |}), RNone)
    | OBandUpdate ctx => now <- now_ms ;; ret (upd_a y ctx (fun a =>
        {| a_map := a_map a; a_mst := a_mst a; a_sess := a_sess a; a_enum := a_enum a;
           a_band := band_update now (a_band a); a_tbl := a_tbl a; a_ltx := a_ltx a |}), RNone)
    | OBandChoose ctx => now <- now_ms ;;
        let b := band_choose now (a_band (aset_of y ctx)) in
        ret (upd_a y ctx (fun a =>
        {| a_map := a_map a; a_mst := a_mst a; a_sess := a_sess a; a_enum := a_enum a;
           a_band := b; a_tbl := a_tbl a; a_ltx := a_ltx a |}), RInt (Zc (b_hts b)))
    | OBandDoHello ctx => now <- now_ms ;; ret (upd_a y ctx (fun a =>
        {| a_map := a_map a; a_mst := a_mst a; a_sess := a_sess a; a_enum := a_enum a;
           a_band := band_do_hello now (a_band a); a_tbl := a_tbl a; a_ltx := a_ltx a |}), RNone)
    | OBandSet ctx r ni begun => ret (upd_a y ctx (fun a =>
        {| a_map := a_map a; a_mst := a_mst a; a_sess := a_sess a; a_enum := a_enum a;
           a_band := {| b_ni := ni; b_r := r; b_begun := begun; b_hts := b_hts (a_band a); b_bts := b_bts (a_band a) |};
           a_tbl := a_tbl a; a_ltx := a_ltx a |}), RNone)
    | OMapCharge ctx => now <- now_s ;; ret (upd_a y ctx (fun a =>
        {| a_map := a_map a; a_mst := map_on_charge now (a_mst a); a_sess := a_sess a; a_enum := a_enum a;
           a_band := a_band a; a_tbl := a_tbl a; a_ltx := a_ltx a |}), RNone)
    | OMapTouch ctx => now <- now_s ;; ret (upd_a y ctx (fun a =>
        {| a_map := a_map a; a_mst := map_touch now (a_mst a); a_sess := a_sess a; a_enum := a_enum a;
           a_band := a_band a; a_tbl := a_tbl a; a_ltx := a_ltx a |}), RNone)
    | OMapResetCharge ctx => ret (upd_a y ctx (fun a =>
        {| a_map := a_map a; a_mst := map_reset_charge (a_mst a); a_sess := a_sess a; a_enum := a_enum a;
           a_band := a_band a; a_tbl := a_tbl a; a_ltx := a_ltx a |}), RNone)
    end.
End Run.

(* bytes the core retains for an interface record (ledger view of the state) *)
Definition owned_bytes (s : ist) : N :=
  sz_iface_state + sz_probe_node * N.of_nat (length (see s))
  + match icon s with Some d => N.of_nat (length d) | None => 0 end.
Definition owned_count (s : ist) : nat :=
  (1 + length (see s) + match icon s with Some _ => 1 | None => 0 end)%nat.
