(* Registry.v - lltd_state_for_iface (lltdBlock.c) as the two daemons with one
   receive thread per interface use it: each thread's FIRST frame registers its
   interface in the global list g_iface_states.  The C statements of the miss
   path, as atomic steps (there is no lock and no atomic in the source):
     scan   : for (cur = g_iface_states; ...)  - not found
     alloc  : st = lltd_port_malloc(...); st->iface_ctx = ctx
     link   : st->next = g_iface_states        (reads the head)
     publish: g_iface_states = st              (writes the head)
   A list of interface ids stands for the linked list (nodes are immutable once
   published); a schedule is a list of thread numbers. *)
From Coq Require Import List NArith Bool.
Import ListNotations.
Local Open Scope N_scope.

Inductive pc := PScan | PAlloc | PLink | PPublish | PDone.
Record thread := { t_ctx : N; t_pc : pc; t_next : list N (* what st->next points to *) ; t_found : bool }.
Record rstate := { r_head : list N; r_t1 : thread; r_t2 : thread }.

Definition thread0 (ctx : N) : thread := {| t_ctx := ctx; t_pc := PScan; t_next := []; t_found := false |}.
Definition rstate0 (c1 c2 : N) : rstate := {| r_head := []; r_t1 := thread0 c1; r_t2 := thread0 c2 |}.

(* one atomic step of a thread against the shared head; returns the new head and the thread *)
Definition tstep (head : list N) (t : thread) : list N * thread :=
  match t_pc t with
  | PScan =>
    if existsb (N.eqb (t_ctx t)) head
    then (head, {| t_ctx := t_ctx t; t_pc := PDone; t_next := t_next t; t_found := true |})
    else (head, {| t_ctx := t_ctx t; t_pc := PAlloc; t_next := t_next t; t_found := false |})
  | PAlloc => (head, {| t_ctx := t_ctx t; t_pc := PLink; t_next := t_next t; t_found := false |})
  | PLink => (head, {| t_ctx := t_ctx t; t_pc := PPublish; t_next := head; t_found := false |})
  | PPublish => (t_ctx t :: t_next t, {| t_ctx := t_ctx t; t_pc := PDone; t_next := t_next t; t_found := false |})
  | PDone => (head, t)
  end.

Definition rstep (s : rstate) (who : bool) : rstate :=
  if who then let '(h, t) := tstep (r_head s) (r_t2 s) in {| r_head := h; r_t1 := r_t1 s; r_t2 := t |}
  else let '(h, t) := tstep (r_head s) (r_t1 s) in {| r_head := h; r_t1 := t; r_t2 := r_t2 s |}.

Definition rrun (s : rstate) (sched : list bool) : rstate := fold_left rstep sched s.
Definition both_done (s : rstate) : bool :=
  match t_pc (r_t1 s), t_pc (r_t2 s) with PDone, PDone => true | _, _ => false end.
Definition registered (s : rstate) (ctx : N) : bool := existsb (N.eqb ctx) (r_head s).
