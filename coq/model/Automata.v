(* Automata.v - lltdAutomata.c: the table-driven automata, the session table,
   the session-event classifier, RepeatBand arithmetic (with the C integer
   widths written out), the mapping timers and automata_tick. *)
From LLTD Require Export World Tx.
Local Open Scope N_scope.

Definition W32 : N := 4294967296.
Definition W64 : N := 18446744073709551616.

(* ================= table automata ================= *)
Record autom := { a_cur : N; a_last : N (* seconds *) }.

(* the loop of switch_state_*: the last matching row wins *)
Fixpoint lookup (tbl : list (N * N * Z)) (cur : N) (input : Z) (acc : option N) : option N :=
  match tbl with
  | [] => acc
  | (f, t, w) :: rest =>
    lookup rest cur input (if (f =? cur) && (w =? input)%Z then Some t else acc)
  end.
Definition next_state (tbl : list (N * N * Z)) (cur : N) (input : Z) : N :=
  match lookup tbl cur input None with Some s => s | None => cur end.

Definition timeout_of (tmo : list Z) (s : N) : Z := nth (N.to_nat s) tmo 0%Z.
(* (uint64_t)current_state->timeout *)
Definition u64_of_Z (z : Z) : N := Z.to_N (z mod 18446744073709551616)%Z.

(* one pass of switch_state_mapping / switch_state_session *)
Definition pass (tbl : list (N * N * Z)) (tmo : list Z) (cur : N) (input : Z) (diff : N) : N * bool :=
  let t := timeout_of tmo cur in
  let timed := negb (t =? 0)%Z && (u64_of_Z t <? diff) in
  (next_state tbl cur (if timed then (-1)%Z else input), timed).

(* switch_state_mapping / switch_state_session at second [now]: when the state
   timed out the function calls itself once more with input -1; last_ts is
   then already [now], so that second call cannot time out again *)
Definition switch_timed (tbl : list (N * N * Z)) (tmo : list Z) (a : autom) (now : N) (input : Z) : autom :=
  let diff := (now + W64 - a_last a) mod W64 in
  let '(s1, timed) := pass tbl tmo (a_cur a) input diff in
  if timed then {| a_cur := fst (pass tbl tmo s1 (-1)%Z 0); a_last := now |}
  else {| a_cur := s1; a_last := now |}.

Definition switch_mapping := switch_timed mapping_trans mapping_timeouts.
Definition switch_session := switch_timed session_trans session_timeouts.
(* switch_state_enumeration has no time-out handling *)
Definition switch_enum (a : autom) (now : N) (input : Z) : autom :=
  {| a_cur := next_state enumeration_trans (a_cur a) input; a_last := now |}.

(* ================= session table ================= *)
Record slot := {
  s_mac : mac; s_gen : N; s_seq : N; s_state : N;
  s_complete : bool; s_valid : bool; s_last : N; s_created : N
}.
Definition slot0 : slot :=
  {| s_mac := zmac; s_gen := 0; s_seq := 0; s_state := 0; s_complete := false; s_valid := false; s_last := 0; s_created := 0 |}.
Record stable := { t_slots : list slot; t_count : N (* uint8_t *); t_allc : bool }.
Definition table0 : stable :=
  {| t_slots := repeat slot0 (N.to_nat SESSION_TABLE_MAX_ENTRIES); t_count := 0; t_allc := true |}.

Definition slot_match (m : mac) (gen : N) (s : slot) : bool :=
  s_valid s && mac_eqb (s_mac s) m && (s_gen s =? gen).

Fixpoint find_idx {A} (p : A -> bool) (l : list A) : option nat :=
  match l with
  | [] => None
  | x :: r => if p x then Some O else match find_idx p r with Some i => Some (S i) | None => None end
  end.
Fixpoint upd_nth {A} (l : list A) (i : nat) (f : A -> A) : list A :=
  match l, i with
  | [], _ => []
  | x :: r, O => f x :: r
  | x :: r, S j => x :: upd_nth r j f
  end.

(* session_table_find *)
Definition st_find (t : stable) (m : mac) (gen : N) : option nat := find_idx (slot_match m gen) (t_slots t).

(* session_table_update_complete_status *)
Definition all_complete (l : list slot) : bool := forallb (fun s => negb (s_valid s) || s_complete s) l.
Definition st_update_status (t : stable) : stable :=
  {| t_slots := t_slots t; t_count := t_count t; t_allc := all_complete (t_slots t) |}.

(* session_table_add at second [now]: index of the entry, or None when the table is full *)
Definition st_add (t : stable) (now : N) (m : mac) (gen seq : N) : stable * option nat :=
  match st_find t m gen with
  | Some i =>
    ({| t_slots := upd_nth (t_slots t) i (fun s =>
          {| s_mac := s_mac s; s_gen := s_gen s; s_seq := seq; s_state := s_state s; s_complete := s_complete s;
             s_valid := s_valid s; s_last := now; s_created := s_created s |});
        t_count := t_count t; t_allc := t_allc t |}, Some i)
  | None =>
    match find_idx (fun s => negb (s_valid s)) (t_slots t) with
    | Some i =>
      ({| t_slots := upd_nth (t_slots t) i (fun _ =>
            {| s_mac := m; s_gen := gen; s_seq := seq; s_state := sess_discover_noack; s_complete := false;
               s_valid := true; s_last := now; s_created := now |});
          t_count := (t_count t + 1) mod 256; t_allc := false |}, Some i)
    | None => (t, None)
    end
  end.

Definition invalidate (s : slot) : slot :=
  {| s_mac := s_mac s; s_gen := s_gen s; s_seq := s_seq s; s_state := s_state s; s_complete := s_complete s;
     s_valid := false; s_last := s_last s; s_created := s_created s |}.
Definition dec_count (n : N) : N := if 0 <? n then n - 1 else n.

(* session_table_remove *)
Definition st_remove (t : stable) (m : mac) (gen : N) : stable :=
  st_update_status
    (match st_find t m gen with
     | Some i => {| t_slots := upd_nth (t_slots t) i invalidate; t_count := dec_count (t_count t); t_allc := t_allc t |}
     | None => t
     end).

(* session_table_clear *)
Definition st_clear (t : stable) : stable :=
  {| t_slots := repeat slot0 (length (t_slots t)); t_count := 0; t_allc := true |}.

Definition st_is_empty (t : stable) : bool := t_count t =? 0.

(* what the daemons do for a completion update: find, set the flag, recompute *)
Definition st_set_complete (t : stable) (m : mac) (gen : N) (v : bool) : stable * option nat :=
  match st_find t m gen with
  | Some i =>
    (st_update_status
       {| t_slots := upd_nth (t_slots t) i (fun s =>
            {| s_mac := s_mac s; s_gen := s_gen s; s_seq := s_seq s; s_state := s_state s; s_complete := v;
               s_valid := s_valid s; s_last := s_last s; s_created := s_created s |});
          t_count := t_count t; t_allc := t_allc t |}, Some i)
  | None => (st_update_status t, None)
  end.

(* the expiry sweep of automata_tick *)
Fixpoint expire (now_s : N) (l : list slot) (cnt : N) : list slot * N :=
  match l with
  | [] => ([], cnt)
  | s :: r =>
    if s_valid s && (s_last s + 60 <? now_s)
    then let '(r', c') := expire now_s r (dec_count cnt) in (invalidate s :: r', c')
    else let '(r', c') := expire now_s r cnt in (s :: r', c')
  end.

(* ================= derive_session_event ================= *)
Notation "x <-? e ;; f" := (match e with Some x => f | None => None end)
  (at level 61, e at next level, right associativity).

(* scan [k] station addresses starting at byte offset [off] *)
Fixpoint scan_stations (buf : list byte) (off : nat) (k : nat) (me : mac) : option bool :=
  match k with
  | O => Some false
  | S k' =>
    a <-? rdmac buf off ;;
    if mac_eqb a me then Some true else scan_stations buf (off + o station_stride)%nat k' me
  end.

(* result: None = a read outside the buffer; Some ev = the C return value *)
Definition classify (buf : list byte) (len : N) (t : stable) (me : mac) : option Z :=
  if len <? sz_hdr then Some (-1)%Z else
  opc <-? rd8 buf (o of_opcode) ;;
  if opc =? opcode_reset then
    rdst <-? rdmac buf (o of_rdst) ;;
    Some (if mac_eqb rdst bcast then Z.of_N sess_topo_reset else Z.of_N sess_reset)
  else if opc =? opcode_hello then Some (Z.of_N sess_hello)
  else if opc =? opcode_discover then
    let stations_off := sz_hdr + of_disc_list in
    if len <? stations_off then Some (-1)%Z else
    gen <-? rd16 buf (o sz_hdr + o of_disc_gen) ;;
    xid <-? rd16 buf (o of_seq) ;;
    rsrc <-? rdmac buf (o of_rsrc) ;;
    count <-? rd16 buf (o sz_hdr + o of_disc_count) ;;
    let existing := match st_find t rsrc gen with Some i => nth_error (t_slots t) i | None => None end in
    acking <-? (if count =? 0 then Some true else
                let held := (len - stations_off) / station_stride in
                let n := if held <? count then held mod 65536 else count in
                scan_stations buf (o stations_off) (o n) me) ;;
    let changed := match existing with Some e => negb (s_seq e =? xid) | None => false end in
    let conflicting := match existing with Some e => negb (mac_eqb (s_mac e) rsrc) | None => false end in
    Some (Z.of_N (if conflicting then sess_discover_conflicting
                  else if acking then (if changed then sess_discover_acking_chgd_xid else sess_discover_acking)
                  else (if changed then sess_discover_noack_chgd_xid else sess_discover_noack)))
  else Some (-1)%Z.

(* ================= RepeatBand ================= *)
Record band := { b_ni : N (* uint32 *); b_r : N (* uint32 *); b_begun : bool; b_hts : N; b_bts : N (* uint64 ms *) }.
Definition band0 : band := {| b_ni := BAND_ALPHA; b_r := 0; b_begun := false; b_hts := 0; b_bts := 0 |}.

Definition band_init (now : N) (b : band) : band :=
  {| b_ni := BAND_ALPHA; b_r := 0; b_begun := false; b_hts := 0; b_bts := (now + BAND_BLOCK_TIME) mod W64 |}.

Definition clampN (x : N) : N := if BAND_NMAX <? x then BAND_NMAX else x.
(* r^BETA in uint64_t, saturating at NMAX after every multiplication *)
Definition r_pow_beta (r : N) : N :=
  Nat.iter (N.to_nat BAND_BETA - 1) (fun p => clampN ((p * r) mod W64)) r.
Definition new_ni (r : N) : N :=
  let n := (BAND_ALPHA * r_pow_beta r) mod W64 in
  if BAND_NMAX <? n then BAND_NMAX else n mod W32.

Definition band_update (now : N) (b : band) : band :=
  {| b_ni := if (0 <? b_r b) && b_begun b then new_ni (b_r b) else b_ni b;
     b_r := 0; b_begun := b_begun b; b_hts := b_hts b; b_bts := (now + BAND_BLOCK_TIME) mod W64 |}.

Definition hello_interval (ni : N) : N :=
  let num := (BAND_TXC * ni * 20) mod W64 in
  let den := (BAND_GAMMA * 3) mod W64 in
  let q := num / den + (if num mod den =? 0 then 0 else 1) in
  if q <? BAND_MUL_FRAME_1 then BAND_MUL_FRAME_1 else q.

Definition band_choose (now : N) (b : band) : band :=
  {| b_ni := b_ni b; b_r := b_r b; b_begun := b_begun b;
     b_hts := (now + hello_interval (b_ni b)) mod W64; b_bts := b_bts b |}.

Definition band_do_hello (now : N) (b : band) : band :=
  let b' := band_choose now b in
  {| b_ni := b_ni b'; b_r := b_r b'; b_begun := true; b_hts := b_hts b'; b_bts := b_bts b' |}.

Definition band_on_hello (b : band) : band :=
  let r := (b_r b + 1) mod W32 in
  {| b_ni := b_ni b; b_r := r; b_begun := b_begun b || (BAND_GAMMA <=? r); b_hts := b_hts b; b_bts := b_bts b |}.

Definition band_set_hts (b : band) (h : N) : band :=
  {| b_ni := b_ni b; b_r := b_r b; b_begun := b_begun b; b_hts := h; b_bts := b_bts b |}.

(* ================= mapping timers ================= *)
Record mstate := { ms_ctc : N (* uint8 *); ms_chg : N; ms_inact : N (* seconds *) }.
Definition mstate0 : mstate := {| ms_ctc := 0; ms_chg := 0; ms_inact := 0 |}.
Definition map_reset_charge (m : mstate) : mstate := {| ms_ctc := 0; ms_chg := 0; ms_inact := ms_inact m |}.
Definition map_on_charge (now_s : N) (m : mstate) : mstate :=
  {| ms_ctc := (ms_ctc m + 1) mod 256; ms_chg := (now_s + 1) mod W64; ms_inact := ms_inact m |}.
Definition map_check_charge (now_s : N) (m : mstate) : mstate :=
  if negb (ms_chg m =? 0) && (ms_chg m <=? now_s) then {| ms_ctc := 0; ms_chg := 0; ms_inact := ms_inact m |} else m.
Definition map_inactive_due (now_s : N) (m : mstate) : bool := negb (ms_inact m =? 0) && (ms_inact m <=? now_s).
Definition map_touch (now_s : N) (m : mstate) : mstate :=
  {| ms_ctc := ms_ctc m; ms_chg := ms_chg m; ms_inact := (now_s + 30) mod W64 |}.

(* ================= automata_tick, wired as the Darwin daemon wires it ================= *)
Record aset := {
  a_map : autom; a_mst : mstate; a_sess : autom; a_enum : autom; a_band : band; a_tbl : stable;
  a_ltx : N    (* iface->LastHelloTxMs, written only through the tick's port *)
}.
Definition aset0 : aset :=
  {| a_map := {| a_cur := mapping_init; a_last := 0 |}; a_mst := mstate0;
     a_sess := {| a_cur := session_init; a_last := 0 |};
     a_enum := {| a_cur := enumeration_init; a_last := 0 |}; a_band := band0; a_tbl := table0; a_ltx := 0 |}.

Definition Zc (n : N) : Z := Z.of_N n.

(* mapping block of the tick *)
Definition tick_mapping (now_s : N) (a : aset) : aset :=
  let a1 :=
    if map_inactive_due now_s (a_mst a) then
      {| a_map := switch_mapping (a_map a) now_s (-1)%Z;
         a_mst := map_reset_charge {| ms_ctc := ms_ctc (a_mst a); ms_chg := ms_chg (a_mst a); ms_inact := 0 |};
         a_sess := a_sess a; a_enum := a_enum a; a_band := a_band a; a_tbl := st_clear (a_tbl a); a_ltx := a_ltx a |}
    else a in
  {| a_map := a_map a1; a_mst := map_check_charge now_s (a_mst a1); a_sess := a_sess a1; a_enum := a_enum a1;
     a_band := a_band a1; a_tbl := a_tbl a1; a_ltx := a_ltx a1 |}.

(* expiry sweep + all_complete recomputation *)
Definition tick_table (now_s : N) (t : stable) : stable :=
  let '(l, cnt) := expire now_s (t_slots t) (t_count t) in
  st_update_status {| t_slots := l; t_count := cnt; t_allc := t_allc t |}.

(* enumeration state adjustment from the table *)
Definition tick_enum_state (now_s : N) (e : autom) (b : band) (t : stable) : autom * band :=
  if a_cur e =? 0 then (e, b) else
  if st_is_empty t then
    ({| a_cur := 0; a_last := a_last e |},
     {| b_ni := b_ni b; b_r := b_r b; b_begun := false; b_hts := 0; b_bts := 0 |})
  else if t_allc t then (switch_enum e now_s (Zc enum_sess_complete), b)
  else (switch_enum e now_s (Zc enum_sess_not_complete), b).

(* hello phase: returns the new enumeration automaton, band, last-tx and whether a Hello goes out *)
Definition tick_hello (now_ms now_s : N) (e : autom) (b : band) (ltx : N) : autom * band * N * bool :=
  if (0 <? b_hts b) && (b_hts b <=? now_ms) then
    if (0 <? ltx) && ((now_ms + W64 - ltx) mod W64 <? HELLO_MIN_INTERVAL_MS) then
      (e, band_set_hts b ((ltx + HELLO_MIN_INTERVAL_MS) mod W64), ltx, false)
    else
      let b1 := band_do_hello now_ms b in
      let floor := (now_ms + HELLO_MIN_INTERVAL_MS) mod W64 in
      let b2 := if b_hts b1 <? floor then band_set_hts b1 floor else b1 in
      (switch_enum e now_s (Zc enum_hello), b2, now_ms, true)
  else (e, b, ltx, false).

Definition tick_block (now_ms : N) (b : band) : band :=
  if (0 <? b_bts b) && (b_bts b <=? now_ms) then band_choose now_ms (band_update now_ms b) else b.

Definition tick (ctx : N) (a : aset) : M aset :=
  now_ms <- now_ms ;;
  let now_s := now_ms / 1000 in
  let a1 := tick_mapping now_s a in
  let t := tick_table now_s (a_tbl a1) in
  let '(e, b) := tick_enum_state now_s (a_enum a1) (a_band a1) t in
  if a_cur e =? 1 then
    let '(e2, b2, ltx, tx) := tick_hello now_ms now_s e b (a_ltx a1) in
    (if tx then act (HelloTx ctx now_ms) else ret tt) ;;;
    ret {| a_map := a_map a1; a_mst := a_mst a1; a_sess := a_sess a1; a_enum := e2;
           a_band := tick_block now_ms b2; a_tbl := t; a_ltx := ltx |}
  else
    ret {| a_map := a_map a1; a_mst := a_mst a1; a_sess := a_sess a1; a_enum := e;
           a_band := b; a_tbl := t; a_ltx := a_ltx a1 |}.
