(* Tx.v - the frame writers of lltdWire.c and lltdTlvOps.c: stores into a
   caller-provided buffer at a running offset, every store bounds-checked.
   Offsets come from the regenerated layout facts. *)
From LLTD Require Export Bytes Extracted.
Local Open Scope N_scope.

Notation "x <-? e ;; f" := (match e with Some x => f | None => None end)
  (at level 61, e at next level, right associativity).

Definition o (n : N) : nat := N.to_nat n.

(* ---- platform configuration as the port getters report it ---- *)
Record pcfg := {
  c_rxsize : N;              (* size of the daemon's receive buffer (its idea of the MTU) *)
  c_mtu : option N;          (* lltd_port_get_mtu; None = the getter fails *)
  c_mac : option mac;        (* lltd_port_get_mac_address *)
  c_flags : N;               (* lltd_port_get_characteristics_flags (uint32) *)
  c_iftype : option N;
  c_ipv4 : option N;         (* address as a 32-bit number; the port supplies its 4 bytes in network order *)
  c_ipv6 : option (list byte);
  c_speed : option N;
  c_wifi : option N;         (* lltd_port_get_wifi_mode; None = not wireless *)
  c_bssid : option mac;
  c_ssid : list byte;
  c_rate : option N;
  c_rssi : option Z          (* int8_t *)
}.
Record gcfg := {
  g_host : list byte;
  g_icon : option (list byte);
  g_fname : option (list byte);
  g_hwid : list byte;
  g_retfull : bool           (* size-returning getters report the full length instead of bytes written *)
}.

Definition own (c : pcfg) : mac := match c_mac c with Some m => m | None => zmac end.
Definition mtu_or_default (c : pcfg) : N :=
  match c_mtu c with Some m => if m =? 0 then 1500 else m | None => 1500 end.
Definition opt0 (x : option N) : N := match x with Some v => v | None => 0 end.

(* the 32-byte base header as it stands on the wire *)
Definition header_bytes (esrc edst rsrc rdst : mac) (seq opcode tos : N) : list byte :=
  mac_bytes edst ++ mac_bytes esrc ++ be16 lltdEtherType ++ [1; tos; 0; opcode]
  ++ mac_bytes rdst ++ mac_bytes rsrc ++ be16 seq.

(* ---- lltdWire.c ---- *)
(* setLltdHeaderEx: field stores in the order of the C; the reserved byte is not written *)
Definition set_header_ex (buf : list byte) (esrc edst rsrc rdst : mac) (seq opcode tos : N) : option (list byte) :=
  b <-? poke buf (o of_etype) (be16 lltdEtherType) ;;
  b <-? poke b (o of_esrc) (mac_bytes esrc) ;;
  b <-? poke b (o of_edst) (mac_bytes edst) ;;
  b <-? poke b (o of_rsrc) (mac_bytes rsrc) ;;
  b <-? poke b (o of_rdst) (mac_bytes rdst) ;;
  b <-? poke b (o of_seq) (be16 seq) ;;
  b <-? poke b (o of_opcode) [opcode] ;;
  b <-? poke b (o of_tos) [tos] ;;
  poke b (o of_version) [1].

(* setLltdHeader: source and destination serve as both Ethernet and real addresses *)
Definition set_header (buf : list byte) (src dst : mac) (seq opcode tos : N) : option (list byte) :=
  set_header_ex buf src dst src dst seq opcode tos.

(* setHelloHeader at [off] *)
Definition set_hello_header (buf : list byte) (off : nat) (apparent current : mac) (gen : N) : option (list byte) :=
  b <-? poke buf (off + o of_hello_app) (mac_bytes apparent) ;;
  b <-? poke b (off + o of_hello_cur) (mac_bytes current) ;;
  poke b (off + o of_hello_gen) (be16 gen).

(* ---- lltdTlvOps.c ---- *)
(* what a writer leaves in the buffer: type, length, value *)
Definition tlv (t : N) (v : list byte) : list byte := t :: N.of_nat (length v) :: v.

Definition u32_of_Z (z : Z) : N := Z.to_N (z mod 4294967296)%Z.

Definition seg_hostid (c : pcfg) := tlv tlv_hostId (mac_bytes (own c)).
Definition seg_characteristics (c : pcfg) := tlv tlv_characterisics (be32 ((c_flags c mod 4294967296) * 65536)).
Definition seg_medium (c : pcfg) := tlv tlv_ifType (be32 (opt0 (c_iftype c))).
Definition seg_ipv4 (c : pcfg) := tlv tlv_ipv4 (be32 (opt0 (c_ipv4 c))).
Definition seg_ipv6 (c : pcfg) :=
  tlv tlv_ipv6 (match c_ipv6 c with Some a => firstn 16 a ++ zeros (16 - length (firstn 16 a)) | None => zeros 16 end).
Definition seg_perf := tlv tlv_perfCounterFrequency (be64 1000000).
Definition seg_speed (c : pcfg) := tlv tlv_linkSpeed (be32 (opt0 (c_speed c))).
(* the port writes at most 32 bytes; the length byte is min(returned, 32) *)
Definition seg_hostname (g : gcfg) := tlv tlv_hostname (firstn 32 (g_host g)).
Definition seg_wifimode (c : pcfg) := match c_wifi c with Some m => tlv tlv_wifimode [m] | None => [] end.
Definition seg_bssid (c : pcfg) := match c_bssid c with Some b => tlv tlv_bssid (mac_bytes b) | None => [] end.
Definition seg_ssid (c : pcfg) := tlv tlv_ssid (firstn 32 (c_ssid c)).
Definition seg_rate (c : pcfg) := tlv tlv_wifiMaxRate (be16 (opt0 (c_rate c))).
Definition seg_rssi (c : pcfg) := tlv tlv_wifiRssi (be32 (u32_of_Z (match c_rssi c with Some r => r | None => 0%Z end))).
Definition qos_flags : N := N.lor (N.lor Config_TLV_QOS_L2Fwd Config_TLV_QOS_PrioTag) Config_TLV_QOS_VLAN.
Definition seg_qos := tlv tlv_qos_characteristics (be32 (qos_flags * 65536)).
Definition seg_icon := tlv tlv_iconImage [].
Definition seg_friendly := tlv tlv_friendlyName [].
Definition seg_eop : list byte := [eofpropmarker].

(* the writer calls of answerHello, in order; a writer returning 0 contributes [] *)
Definition hello_tlvs (c : pcfg) (g : gcfg) : list (list byte) :=
  [seg_hostid c; seg_characteristics c; seg_medium c; seg_ipv4 c; seg_ipv6 c; seg_perf; seg_speed c; seg_hostname g]
  ++ (match c_wifi c with
      | Some _ => [seg_wifimode c; seg_bssid c; seg_ssid c; seg_rate c; seg_rssi c]
      | None => []
      end)
  ++ [seg_qos; seg_icon; seg_friendly; seg_eop].

(* offset += setXxxTLV(buffer, offset, ...) *)
Definition emit1 (st : list byte * nat) (seg : list byte) : option (list byte * nat) :=
  b <-? poke (fst st) (snd st) seg ;; Some (b, (snd st + length seg)%nat).
Fixpoint emits (st : list byte * nat) (segs : list (list byte)) : option (list byte * nat) :=
  match segs with
  | [] => Some st
  | s :: r => st' <-? emit1 st s ;; emits st' r
  end.
