(* Extraction of the executable model for the correspondence check.
   ExtrOcamlBasic only: bool, option, unit, list, prod, sumbool, sumor map to
   their OCaml counterparts; N, Z, positive and nat stay the extracted
   inductive types (no OCaml int). *)
From LLTD Require Import Sys Spec SpecClassify ClassifyProofs SpecTx.
Require Import ExtrOcamlBasic.
Extraction "model.ml" run_op sys0 world0 default_cfg default_g cfg_of aset_of owned_bytes owned_count
  mk_rxbuf linux_getters reg_find
  session_expect mapping_expect ni_expect timeout_of mapping_timeouts
  d_add d_remove d_set_complete d_tick d_all_complete d_has
  classify_spec classify_constrained known_of mac_bytes own
  wf_tx hello_fields decode_attrs attrs_of mtu_or_default.
