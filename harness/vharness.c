/*
 * Verification harness for d3vi1/LLTDResponder (see /verif/DESIGN.md 4.2).
 *
 * One process = the protocol core from /repo's working tree + this
 * "verification port" (virtual clock, recorded transmits and sleeps,
 * allocation ledger, junk-filled malloc, fault injection) + a scenario
 * interpreter.  Reads a scenario file (one operation per line, scenarios
 * separated by "scenario <name>" lines), runs every scenario in a forked
 * child (so the core's static registry starts empty and a sanitizer abort is
 * an observation, not the end of the run) and prints one canonical
 * observation block per operation.  The extracted Coq model prints the same
 * blocks for the same file; bin/check diffs them.
 *
 * Output grammar:
 *   "## <scenario name>"          start of a scenario
 *   "# <op line>"                 echo of the operation
 *   "> sleep <ms>" | "> send <ctx> <hex>" | "> hello <ctx> <ms>"   port calls
 *   "= key=val ..."               status after the operation
 *   "! fault <what>"              child died (sanitizer abort / signal)
 */
#define _GNU_SOURCE
#include <stdarg.h>
#include <stdint.h>
#include <stdio.h>
#include <stdlib.h>
#include <string.h>
#include <sys/types.h>
#include <sys/wait.h>
#include <unistd.h>

#include "lltdAutomata.h"
#include "lltdBlock.h"
#include "lltdPort.h"
#include "lltdProtocol.h"

/* ------------------------------------------------------------------ */
/* contexts: laid out so that the sliced Darwin flow compiles against  */
/* it (field names as in os/darwin/daemon/darwin-main.h)               */
/* ------------------------------------------------------------------ */
#include "vctx.h"

/* VIEW_AUTOMATA=1 (default): the harness reads the public fields of the automata objects the properties C12-C16
 * name (automata.current_state/last_ts, mapping_state, band_state, session_table).  If a change to those structs
 * keeps the harness from compiling, bin/vcommon.py rebuilds it with VIEW_AUTOMATA=0: the frame-level operations
 * (everything C01-C10 and C17-C19 use) keep working, the automata view prints "view=off". */
#ifndef VIEW_AUTOMATA
#define VIEW_AUTOMATA 1
#endif

#define NCTX 8
static vctx g_ctx[NCTX];

/* global (context-free) port configuration */
static uint8_t g_host[256]; static size_t g_hostlen = 0;
static uint8_t *g_icon = NULL; static size_t g_iconlen = 0; static int g_hasicon = 0;
static uint8_t *g_fname = NULL; static size_t g_fnamelen = 0; static int g_hasfname = 0;
static uint8_t g_hwid[256]; static size_t g_hwidlen = 0;
static int g_retfull = 0;      /* size getters return the full length instead of bytes written */

static uint64_t g_ms = 0;
static int g_junk = 0xA5;

/* ------------------------------------------------------------------ */
/* allocation ledger                                                   */
/* ------------------------------------------------------------------ */
#define LSZ (1u << 18)
static struct { void *p; size_t n; } g_led[LSZ];
static long g_live = 0, g_bytes = 0, g_allocs = 0, g_sends = 0;
static long g_hiw = 0;
#define MAXFAIL 64
static long g_failalloc[MAXFAIL]; static int g_nfailalloc = 0;
static long g_failsend[MAXFAIL]; static int g_nfailsend = 0;
static int g_failalloc_from = 0; static long g_failalloc_from_idx = 0;
static int g_failsend_from = 0; static long g_failsend_from_idx = 0;

static unsigned led_hash(void *p) { return (unsigned)(((uintptr_t)p >> 4) * 2654435761u) & (LSZ - 1); }
static void led_add(void *p, size_t n) {
    unsigned h = led_hash(p);
    while (g_led[h].p && g_led[h].p != (void *)1) h = (h + 1) & (LSZ - 1);
    g_led[h].p = p; g_led[h].n = n;
}
static int led_del(void *p, size_t *n) {
    unsigned h = led_hash(p);
    while (g_led[h].p) {
        if (g_led[h].p == p) { *n = g_led[h].n; g_led[h].p = (void *)1; return 1; }
        h = (h + 1) & (LSZ - 1);
    }
    return 0;
}

uint64_t lltd_port_monotonic_seconds(void) { return g_ms / 1000; }
uint64_t lltd_port_monotonic_milliseconds(void) { return g_ms; }

void *lltd_port_malloc(size_t n) {
    long idx = g_allocs++;
    if (g_failalloc_from && idx >= g_failalloc_from_idx) return NULL;
    for (int i = 0; i < g_nfailalloc; i++) if (g_failalloc[i] == idx) return NULL;
    void *p = malloc(n);
    if (!p) { printf("! harness-oom\n"); fflush(stdout); _exit(3); }
#ifdef VMSAN
    /* MemorySanitizer build: fresh memory stays "uninitialised" so that its way into a transmitted frame is reported */
#else
    memset(p, g_junk, n);
#endif
    led_add(p, n);
    g_live++; g_bytes += (long)n;
    if (g_bytes > g_hiw) g_hiw = g_bytes;
    return p;
}
void lltd_port_free(void *p) {
    if (!p) return;
    size_t n = 0;
    if (!led_del(p, &n)) {
        /* free of something the port never handed out (or twice) */
        printf("! fault bad-free\n"); fflush(stdout); _exit(4);
    }
    g_live--; g_bytes -= (long)n;
    free(p);
}
void *lltd_port_memset(void *p, int v, size_t n) { return memset(p, v, n); }
void *lltd_port_memcpy(void *d, const void *s, size_t n) { return memcpy(d, s, n); }
int lltd_port_memcmp(const void *a, const void *b, size_t n) { return memcmp(a, b, n); }
void lltd_port_sleep_ms(uint32_t ms) { printf("> sleep %u\n", ms); }

static void hexout(const uint8_t *b, size_t n) {
    static const char d[] = "0123456789abcdef";
    for (size_t i = 0; i < n; i++) { putchar(d[b[i] >> 4]); putchar(d[b[i] & 15]); }
}

/* frames handed to the port during the current operation (for "relay") */
#define MAXLAST 4096
static struct { int ctx; size_t n; uint8_t *b; } g_last[MAXLAST]; static int g_nlast = 0;
static void last_reset(void) { for (int i = 0; i < g_nlast; i++) free(g_last[i].b); g_nlast = 0; }

int lltd_port_send_frame(void *c, const void *f, size_t n) {
#ifdef VMSAN
    {   /* every byte handed to the wire must have been written by the core since the memory was obtained */
        extern long __msan_test_shadow(const volatile void *x, unsigned long size);
        long bad = __msan_test_shadow(f, n);
        if (bad >= 0) { printf("! fault uninitialised-byte-%ld-of-%lu-transmitted\n", bad, (unsigned long)n); fflush(stdout); _exit(5); }
    }
#endif

    vctx *v = (vctx *)c;
    long idx = g_sends++;
    if (g_nlast < MAXLAST) { g_last[g_nlast].ctx = v ? v->id : -1; g_last[g_nlast].n = n; g_last[g_nlast].b = malloc(n ? n : 1); memcpy(g_last[g_nlast].b, f, n); g_nlast++; }
    int fail = 0;
    if (g_failsend_from && idx >= g_failsend_from_idx) fail = 1;
    for (int i = 0; i < g_nfailsend; i++) if (g_failsend[i] == idx) fail = 1;
    printf("> send %d %s", v ? v->id : -1, fail ? "x " : "");
    hexout((const uint8_t *)f, n);
    putchar('\n');
    return fail ? -1 : 0;
}

int lltd_port_get_mtu(void *c, size_t *o) { vctx *v = c; if (v->mtufailat > 0 && --v->mtufailat == 0) return -1; if (v->mtufail) return -1; *o = v->mtu; return 0; }
int lltd_port_get_icon_image(void **d, size_t *s) {
    if (!g_hasicon) return -1;
    void *p = lltd_port_malloc(g_iconlen);
    if (!p) return -1;
    memcpy(p, g_icon, g_iconlen);
    *d = p; *s = g_iconlen; return 0;
}
int lltd_port_get_friendly_name(void **d, size_t *s) {
    if (!g_hasfname) return -1;
    void *p = lltd_port_malloc(g_fnamelen);
    if (!p) return -1;
    memcpy(p, g_fname, g_fnamelen);
    *d = p; *s = g_fnamelen; return 0;
}
static size_t put_clamped(void *dst, size_t dst_len, const uint8_t *src, size_t n) {
    size_t w = n < dst_len ? n : dst_len;
    memcpy(dst, src, w);
    return g_retfull ? n : w;
}
size_t lltd_port_get_hostname(void *d, size_t n) { return put_clamped(d, n, g_host, g_hostlen); }
size_t lltd_port_get_support_url(void *d, size_t n) { (void)d; (void)n; return 0; }
int lltd_port_get_upnp_uuid(uint8_t o[16]) { (void)o; return -1; }
size_t lltd_port_get_hw_id(void *d, size_t n) { return put_clamped(d, n, g_hwid, g_hwidlen); }
int lltd_port_get_mac_address(void *c, ethernet_address_t *o) { vctx *v = c; if (v->macfailat > 0 && --v->macfailat == 0) return -1; if (v->macfail) return -1; memcpy(o->a, v->macAddress, 6); return 0; }
uint32_t lltd_port_get_characteristics_flags(void *c) { return ((vctx *)c)->flags; }
int lltd_port_get_if_type(void *c, uint32_t *o) { vctx *v = c; if (v->iftypefail) return -1; *o = v->iftype; return 0; }
int lltd_port_get_ipv4_address(void *c, uint32_t *o) {
    vctx *v = c; if (v->ipv4fail) return -1;
    uint8_t b[4] = { (uint8_t)(v->ipv4 >> 24), (uint8_t)(v->ipv4 >> 16), (uint8_t)(v->ipv4 >> 8), (uint8_t)v->ipv4 };
    memcpy(o, b, 4); return 0;
}
int lltd_port_get_ipv6_address(void *c, uint8_t o[16]) { vctx *v = c; if (v->ipv6fail) return -1; memcpy(o, v->ipv6, 16); return 0; }
int lltd_port_get_link_speed_100bps(void *c, uint32_t *o) { vctx *v = c; if (v->speedfail) return -1; *o = v->speed; return 0; }
int lltd_port_get_wifi_mode(void *c, uint8_t *o) { vctx *v = c; if (!v->wifi) return -1; *o = v->wifimode; return 0; }
int lltd_port_get_bssid(void *c, uint8_t o[6]) { vctx *v = c; if (v->bssidfail) return -1; memcpy(o, v->bssid, 6); return 0; }
size_t lltd_port_get_ssid(void *c, void *d, size_t n) { vctx *v = c; return put_clamped(d, n, v->ssid, v->ssidlen); }
int lltd_port_get_wifi_max_rate_0_5mbps(void *c, uint16_t *o) { vctx *v = c; if (v->ratefail) return -1; *o = v->rate; return 0; }
int lltd_port_get_wifi_rssi_dbm(void *c, int8_t *o) { vctx *v = c; if (v->rssifail) return -1; *o = (int8_t)v->rssi; return 0; }
int lltd_port_get_wifi_phy_medium(void *c, uint32_t *o) { vctx *v = c; if (!v->phyok) { *o = 0; return -1; } *o = v->phy; return 0; }
void lltd_port_log_debug(const char *f, ...) { (void)f; }
void lltd_port_log_warning(const char *f, ...) { (void)f; }

/* ------------------------------------------------------------------ */
/* ESP32 entry point and the sliced Darwin flow (separate TUs)         */
/* ------------------------------------------------------------------ */
typedef struct {
    automata *mapping; automata *session; automata *enumeration;
    const uint8_t *icon; size_t icon_size; const char *hostname; const char *uuid;
} esp_ctx_shadow;
extern void lltd_esp32_handle_frame(void *ctx, const void *frame, size_t length);
extern void flow_run(void *ctx, long recvLen);
extern void flow_tick(void *ctx);
void flow_send_hello_record(void *ni) { vctx *v = ni; printf("> hello %d %llu\n", v->id, (unsigned long long)g_ms); }

/* ------------------------------------------------------------------ */
/* helpers                                                             */
/* ------------------------------------------------------------------ */
static int hexval(int c) { if (c >= '0' && c <= '9') return c - '0'; if (c >= 'a' && c <= 'f') return c - 'a' + 10; if (c >= 'A' && c <= 'F') return c - 'A' + 10; return -1; }
static size_t unhex(const char *s, uint8_t *out, size_t cap) {
    size_t n = 0;
    if (s[0] == '-' && s[1] == 0) return 0;
    while (s[0] && s[1] && n < cap) {
        int a = hexval(s[0]), b = hexval(s[1]);
        if (a < 0 || b < 0) break;
        out[n++] = (uint8_t)(a * 16 + b); s += 2;
    }
    return n;
}
static void pr_mac(const uint8_t *m) { hexout(m, 6); }

static void pr_led(void) { printf(" live=%ld bytes=%ld allocs=%ld sends=%ld", g_live, g_bytes, g_allocs, g_sends); }

#if VIEW_AUTOMATA
static void pr_autom(vctx *v) {
    automata *m = v->mappingAutomata, *s = v->sessionAutomata, *e = v->enumerationAutomata;
    if (m) {
        printf(" map=%u@%llu", m->current_state, (unsigned long long)m->last_ts);
        mapping_state *ms = m->extra;
        if (ms) printf(" ctc=%u chg=%llu inact=%llu", ms->ctc, (unsigned long long)ms->charge_timeout_ts, (unsigned long long)ms->inactive_timeout_ts);
        else printf(" mextra=null");
    } else printf(" map=null");
    if (s) printf(" sess=%u@%llu", s->current_state, (unsigned long long)s->last_ts); else printf(" sess=null");
    if (e) {
        printf(" enum=%u@%llu", e->current_state, (unsigned long long)e->last_ts);
        band_state *b = e->extra;
        if (b) printf(" ni=%u r=%u begun=%d hts=%llu bts=%llu", b->Ni, b->r, b->begun ? 1 : 0, (unsigned long long)b->hello_timeout_ts, (unsigned long long)b->block_timeout_ts);
    } else printf(" enum=null");
    printf(" ltx=%llu", (unsigned long long)v->LastHelloTxMs);
}
static void pr_table(vctx *v) {
    session_table *t = v->sessionTable;
    if (!t) { printf(" tbl=null"); return; }
    printf(" cnt=%u allc=%d empty=%d tbl=", t->count, session_table_all_complete(t) ? 1 : 0, session_table_is_empty(t) ? 1 : 0);
    int any = 0;
    for (int i = 0; i < SESSION_TABLE_MAX_ENTRIES; i++) {
        session_entry *e = &t->entries[i];
        if (!e->valid) continue;
        if (any) putchar(',');
        any = 1;
        printf("%d:", i); pr_mac(e->mapper_mac);
        printf(":%u:%u:%u:%d:%llu", e->generation, e->seq_number, e->state, e->complete ? 1 : 0, (unsigned long long)e->last_activity_ts);
    }
    if (!any) putchar('-');
}

#else
static void pr_autom(vctx *v) { (void)v; printf(" view=off"); }
static void pr_table(vctx *v) { (void)v; printf(" tblview=off"); }
#endif

static vctx *ctx_of(const char *s) { int i = atoi(s); if (i < 0 || i >= NCTX) i = 0; return &g_ctx[i]; }

static void ctx_defaults(void) {
    static const char *names[NCTX] = { "if0", "if1", "if2", "if3", "if4", "if5", "if6", "if7" };
    memset(g_ctx, 0, sizeof g_ctx);
    for (int i = 0; i < NCTX; i++) {
        vctx *v = &g_ctx[i];
        v->id = i; v->deviceName = names[i]; v->mtu = 1500;
        v->macAddress[0] = 2; v->macAddress[5] = (uint8_t)(0x10 + i);
        v->iftype = 6; v->speed = 1000000;
    }
}

/* receive buffer exactly as the daemons make it: malloc(MTU), frame bytes
 * at the front, whatever was there before behind them (fill byte). */
static uint8_t *mk_rxbuf(vctx *v, const char *fill, const char *hex, size_t *out_len) {
    size_t mtu = v->mtu;
    uint8_t *buf = malloc(mtu ? mtu : 1);
    memset(buf, (int)strtol(fill, NULL, 16), mtu);
    size_t n = unhex(hex, buf, mtu);
    if (out_len) *out_len = n;
    return buf;
}

static void apply_cfg(char **tok, int ntok) {
    if (ntok < 2) return;
    int global = (tok[1][0] == 'g');
    vctx *v = global ? NULL : ctx_of(tok[1]);
    for (int i = 2; i < ntok; i++) {
        char *eq = strchr(tok[i], '='); if (!eq) continue;
        *eq = 0; const char *k = tok[i], *val = eq + 1;
        if (global) {
            if (!strcmp(k, "host")) g_hostlen = unhex(val, g_host, sizeof g_host);
            else if (!strcmp(k, "icon")) { free(g_icon); g_icon = NULL; g_hasicon = strcmp(val, "none") != 0; if (g_hasicon) { g_icon = malloc(strlen(val) / 2 + 1); g_iconlen = unhex(val, g_icon, strlen(val) / 2); } }
            else if (!strcmp(k, "fname")) { free(g_fname); g_fname = NULL; g_hasfname = strcmp(val, "none") != 0; if (g_hasfname) { g_fname = malloc(strlen(val) / 2 + 1); g_fnamelen = unhex(val, g_fname, strlen(val) / 2); } }
            else if (!strcmp(k, "hwid")) g_hwidlen = unhex(val, g_hwid, sizeof g_hwid);
            else if (!strcmp(k, "retfull")) g_retfull = atoi(val);
        } else {
            if (!strcmp(k, "mtu")) v->mtu = (size_t)strtoul(val, NULL, 10);
            else if (!strcmp(k, "mtufail")) v->mtufail = atoi(val);
            else if (!strcmp(k, "mtufailat")) v->mtufailat = atol(val);
            else if (!strcmp(k, "macfailat")) v->macfailat = atol(val);
            else if (!strcmp(k, "mac")) unhex(val, v->macAddress, 6);
            else if (!strcmp(k, "macfail")) v->macfail = atoi(val);
            else if (!strcmp(k, "flags")) v->flags = (uint32_t)strtoul(val, NULL, 10);
            else if (!strcmp(k, "iftype")) v->iftype = (uint32_t)strtoul(val, NULL, 10);
            else if (!strcmp(k, "iftypefail")) v->iftypefail = atoi(val);
            else if (!strcmp(k, "ipv4")) v->ipv4 = (uint32_t)strtoul(val, NULL, 10);
            else if (!strcmp(k, "ipv4fail")) v->ipv4fail = atoi(val);
            else if (!strcmp(k, "ipv6")) unhex(val, v->ipv6, 16);
            else if (!strcmp(k, "ipv6fail")) v->ipv6fail = atoi(val);
            else if (!strcmp(k, "speed")) v->speed = (uint32_t)strtoul(val, NULL, 10);
            else if (!strcmp(k, "speedfail")) v->speedfail = atoi(val);
            else if (!strcmp(k, "wifi")) { v->wifi = strcmp(val, "none") != 0; v->wifimode = (uint8_t)strtoul(val, NULL, 10); }
            else if (!strcmp(k, "bssid")) unhex(val, v->bssid, 6);
            else if (!strcmp(k, "bssidfail")) v->bssidfail = atoi(val);
            else if (!strcmp(k, "ssid")) v->ssidlen = unhex(val, v->ssid, sizeof v->ssid);
            else if (!strcmp(k, "rate")) v->rate = (uint16_t)strtoul(val, NULL, 10);
            else if (!strcmp(k, "ratefail")) v->ratefail = atoi(val);
            else if (!strcmp(k, "rssi")) v->rssi = atoi(val);
            else if (!strcmp(k, "rssifail")) v->rssifail = atoi(val);
            else if (!strcmp(k, "phy")) { v->phyok = strcmp(val, "none") != 0; v->phy = (uint32_t)strtoul(val, NULL, 10); }
        }
    }
}

#if VIEW_AUTOMATA
static session_entry *find_entry(vctx *v, const uint8_t *mac, unsigned gen) {
    return session_table_find(v->sessionTable, mac, (uint16_t)gen, 0);
}

#endif

/* ------------------------------------------------------------------ */
/* one operation                                                       */
/* ------------------------------------------------------------------ */
static void run_op(char *line) {
    char *tok[64]; int nt = 0;
    char copy[1 << 16];
    if (strlen(line) >= sizeof copy) {
        /* long line: only frame/flow/classify/cfg carry long hex; tokenise in place on a heap copy */
    }
    char *work = strlen(line) >= sizeof copy ? strdup(line) : strcpy(copy, line);
    for (char *p = strtok(work, " \t\n"); p && nt < 64; p = strtok(NULL, " \t\n")) tok[nt++] = p;
    if (nt == 0) return;
    const char *op = tok[0];
    printf("# %s", line);
    if (line[strlen(line) - 1] != '\n') putchar('\n');

    if (strcmp(op, "relay") != 0) last_reset();
    if (!strcmp(op, "relay") && nt >= 4) {
        /* relay <from> <to> <fill>: every frame interface <from> transmitted during the previous operation
         * (successfully or not) is delivered unmodified to interface <to> */
        int from = atoi(tok[1]); vctx *to = ctx_of(tok[2]);
        int n = g_nlast; g_nlast = 0;
        struct { int ctx; size_t n; uint8_t *b; } *cp = malloc(sizeof(*cp) * (n ? n : 1));
        memcpy(cp, g_last, sizeof(*cp) * n);
        for (int i = 0; i < n; i++) {
            if (cp[i].ctx == from) {
                size_t mtu = to->mtu;
                uint8_t *buf = malloc(mtu ? mtu : 1);
                memset(buf, (int)strtol(tok[3], NULL, 16), mtu);
                memcpy(buf, cp[i].b, cp[i].n < mtu ? cp[i].n : mtu);
                parseFrame(buf, to);
                free(buf);
            }
            free(cp[i].b);
        }
        free(cp);
        last_reset();
        printf("="); pr_led(); putchar('\n');
    }
    else if (!strcmp(op, "cfg")) { apply_cfg(tok, nt); printf("= ok\n"); }
    else if (!strcmp(op, "junk")) { g_junk = (int)strtol(tok[1], NULL, 16); printf("= ok\n"); }
    else if (!strcmp(op, "adv")) { g_ms += strtoull(tok[1], NULL, 10); printf("= now=%llu\n", (unsigned long long)g_ms); }
    else if (!strcmp(op, "failalloc")) {
        /* failalloc k : the k-th allocation from now fails (k >= 1); failalloc from k : it and all later ones; failalloc clear */
        if (!strcmp(tok[1], "clear")) { g_nfailalloc = 0; g_failalloc_from = 0; }
        else if (!strcmp(tok[1], "from")) { g_failalloc_from = 1; g_failalloc_from_idx = g_allocs + atol(tok[2]) - 1; }
        else if (g_nfailalloc < MAXFAIL) g_failalloc[g_nfailalloc++] = g_allocs + atol(tok[1]) - 1;
        printf("= ok\n");
    }
    else if (!strcmp(op, "failsend")) {
        if (!strcmp(tok[1], "clear")) { g_nfailsend = 0; g_failsend_from = 0; }
        else if (!strcmp(tok[1], "from")) { g_failsend_from = 1; g_failsend_from_idx = g_sends + atol(tok[2]) - 1; }
        else if (g_nfailsend < MAXFAIL) g_failsend[g_nfailsend++] = g_sends + atol(tok[1]) - 1;
        printf("= ok\n");
    }
    else if (!strcmp(op, "frame") && nt >= 4) {
        vctx *v = ctx_of(tok[1]);
        uint8_t *buf = mk_rxbuf(v, tok[2], tok[3], NULL);
        parseFrame(buf, v);
        free(buf);
        printf("="); pr_led(); putchar('\n');
    }
    else if (!strcmp(op, "classify") && nt >= 4) {
        vctx *v = ctx_of(tok[1]);
        size_t n = 0;
        uint8_t *buf = mk_rxbuf(v, tok[2], tok[3], &n);
        int ev = derive_session_event(buf, n, v->sessionTable, v->macAddress);
        free(buf);
        printf("= ev=%d\n", ev);
    }
#if VIEW_AUTOMATA
    else if (!strcmp(op, "esp32") && nt >= 4) {
        /* esp32 <ctx> <len> <hex>: the buffer is exactly len bytes long */
        vctx *v = ctx_of(tok[1]);
        size_t len = (size_t)strtoul(tok[2], NULL, 10);
        uint8_t *buf = malloc(len ? len : 1);
        memset(buf, 0, len);
        unhex(tok[3], buf, len);
        esp_ctx_shadow ec; memset(&ec, 0, sizeof ec);
        ec.mapping = v->mappingAutomata; ec.session = v->sessionAutomata; ec.enumeration = v->enumerationAutomata;
        lltd_esp32_handle_frame(&ec, len ? buf : buf, len);
        free(buf);
        printf("="); pr_autom(v); putchar('\n');
    }
#endif
    else if (!strcmp(op, "flow") && nt >= 4) {
        vctx *v = ctx_of(tok[1]);
        size_t n = 0;
        v->recvBuffer = mk_rxbuf(v, tok[2], tok[3], &n);
        flow_run(v, (long)n);
        free(v->recvBuffer); v->recvBuffer = NULL;
        printf("="); pr_led(); pr_autom(v); pr_table(v); putchar('\n');
    }
    else if (!strcmp(op, "tick")) {
        vctx *v = ctx_of(tok[1]);
        flow_tick(v);
        printf("="); pr_autom(v); pr_table(v); putchar('\n');
    }
    else if (!strcmp(op, "mk")) {
        vctx *v = ctx_of(tok[1]);
        v->mappingAutomata = init_automata_mapping();
        v->sessionAutomata = init_automata_session();
        v->enumerationAutomata = init_automata_enumeration();
        v->sessionTable = session_table_create();
        printf("="); pr_led(); pr_autom(v); pr_table(v); putchar('\n');
    }
#if VIEW_AUTOMATA
    else if (!strcmp(op, "ctor")) {
        /* ctor <kind>: run one constructor under the current fault oracle, report, release */
        void *p = NULL; void *extra = NULL;
        if (!strcmp(tok[1], "mapping")) { automata *a = init_automata_mapping(); p = a; if (a) extra = a->extra; }
        else if (!strcmp(tok[1], "session")) { automata *a = init_automata_session(); p = a; if (a) extra = a->extra; }
        else if (!strcmp(tok[1], "enumeration")) { automata *a = init_automata_enumeration(); p = a; if (a) extra = a->extra; }
        else if (!strcmp(tok[1], "table")) { p = session_table_create(); }
        printf("= ret=%s extra=%s", p ? "ok" : "null", extra ? "ok" : "null");
        if (p && strcmp(tok[1], "table") != 0) { automata *a = p; printf(" st=%u", a->current_state); }
        if (extra) lltd_port_free(extra);
        if (p) lltd_port_free(p);
        pr_led(); putchar('\n');
    }
#endif
    /* a constructor that reported failure (NULL) is not passed on to the switch functions (the caller's duty) */
    else if (!strcmp(op, "ss_map")) { vctx *v = ctx_of(tok[1]); if (v->mappingAutomata) switch_state_mapping(v->mappingAutomata, atoi(tok[2]), "v"); printf("="); pr_autom(v); putchar('\n'); }
    else if (!strcmp(op, "ss_sess")) { vctx *v = ctx_of(tok[1]); if (v->sessionAutomata) switch_state_session(v->sessionAutomata, atoi(tok[2]), "v"); printf("="); pr_autom(v); putchar('\n'); }
    else if (!strcmp(op, "ss_enum")) { vctx *v = ctx_of(tok[1]); if (v->enumerationAutomata) switch_state_enumeration(v->enumerationAutomata, atoi(tok[2]), "v"); printf("="); pr_autom(v); putchar('\n'); }
#if VIEW_AUTOMATA
    else if (!strcmp(op, "set_map")) { vctx *v = ctx_of(tok[1]); v->mappingAutomata->current_state = (uint8_t)atoi(tok[2]); v->mappingAutomata->last_ts = strtoull(tok[3], NULL, 10); printf("="); pr_autom(v); putchar('\n'); }
    else if (!strcmp(op, "set_sess")) { vctx *v = ctx_of(tok[1]); v->sessionAutomata->current_state = (uint8_t)atoi(tok[2]); v->sessionAutomata->last_ts = strtoull(tok[3], NULL, 10); printf("="); pr_autom(v); putchar('\n'); }
    else if (!strcmp(op, "set_enum")) { vctx *v = ctx_of(tok[1]); v->enumerationAutomata->current_state = (uint8_t)atoi(tok[2]); printf("="); pr_autom(v); putchar('\n'); }
#endif
#if VIEW_AUTOMATA
    else if (!strcmp(op, "st_add") && nt >= 5) {
        vctx *v = ctx_of(tok[1]); uint8_t mac[6] = {0}; unhex(tok[2], mac, 6);
        session_entry *e = session_table_add(v->sessionTable, mac, (uint16_t)atoi(tok[3]), (uint16_t)atoi(tok[4]));
        printf("= ret=%d", e ? (int)(e - v->sessionTable->entries) : -1); pr_table(v); putchar('\n');
    }
    else if (!strcmp(op, "st_find") && nt >= 4) {
        vctx *v = ctx_of(tok[1]); uint8_t mac[6] = {0}; unhex(tok[2], mac, 6);
        session_entry *e = find_entry(v, mac, (unsigned)atoi(tok[3]));
        printf("= ret=%d", e ? (int)(e - v->sessionTable->entries) : -1); pr_table(v); putchar('\n');
    }
    else if (!strcmp(op, "st_remove") && nt >= 4) {
        vctx *v = ctx_of(tok[1]); uint8_t mac[6] = {0}; unhex(tok[2], mac, 6);
        session_table_remove(v->sessionTable, mac, (uint16_t)atoi(tok[3]));
        printf("="); pr_table(v); putchar('\n');
    }
    else if (!strcmp(op, "st_complete") && nt >= 5) {
        /* completion update as the daemons do it: find, set the flag, recompute */
        vctx *v = ctx_of(tok[1]); uint8_t mac[6] = {0}; unhex(tok[2], mac, 6);
        session_entry *e = find_entry(v, mac, (unsigned)atoi(tok[3]));
        if (e) e->complete = atoi(tok[4]) != 0;
        session_table_update_complete_status(v->sessionTable);
        printf("= ret=%d", e ? (int)(e - v->sessionTable->entries) : -1); pr_table(v); putchar('\n');
    }
#endif
    else if (!strcmp(op, "st_clear")) { vctx *v = ctx_of(tok[1]); session_table_clear(v->sessionTable); printf("="); pr_table(v); putchar('\n'); }
#if VIEW_AUTOMATA
    else if (!strcmp(op, "band_init")) { vctx *v = ctx_of(tok[1]); band_init_stats(v->enumerationAutomata->extra); printf("="); pr_autom(v); putchar('\n'); }
    else if (!strcmp(op, "band_hello")) { vctx *v = ctx_of(tok[1]); band_on_hello_received(v->enumerationAutomata->extra); printf("="); pr_autom(v); putchar('\n'); }
    else if (!strcmp(op, "band_update")) { vctx *v = ctx_of(tok[1]); band_update_stats(v->enumerationAutomata->extra); printf("="); pr_autom(v); putchar('\n'); }
    else if (!strcmp(op, "band_choose")) { vctx *v = ctx_of(tok[1]); uint64_t t = band_choose_hello_time(v->enumerationAutomata->extra); printf("= ret=%llu", (unsigned long long)t); pr_autom(v); putchar('\n'); }
    else if (!strcmp(op, "band_do_hello")) { vctx *v = ctx_of(tok[1]); band_do_hello(v->enumerationAutomata->extra); printf("="); pr_autom(v); putchar('\n'); }
    else if (!strcmp(op, "band_set") && nt >= 5) {
        vctx *v = ctx_of(tok[1]); band_state *b = v->enumerationAutomata->extra;
        b->r = (uint32_t)strtoul(tok[2], NULL, 10); b->Ni = (uint32_t)strtoul(tok[3], NULL, 10); b->begun = atoi(tok[4]) != 0;
        printf("="); pr_autom(v); putchar('\n');
    }
#endif
#if VIEW_AUTOMATA
    else if (!strcmp(op, "map_charge")) { vctx *v = ctx_of(tok[1]); if (v->mappingAutomata) mapping_on_charge(v->mappingAutomata->extra); printf("="); pr_autom(v); putchar('\n'); }
    else if (!strcmp(op, "map_touch")) { vctx *v = ctx_of(tok[1]); if (v->mappingAutomata) mapping_reset_inactive_timeout(v->mappingAutomata->extra); printf("="); pr_autom(v); putchar('\n'); }
    else if (!strcmp(op, "map_reset_charge")) { vctx *v = ctx_of(tok[1]); mapping_reset_charge(v->mappingAutomata->extra); printf("="); pr_autom(v); putchar('\n'); }
#endif
    else printf("= unknown-op\n");
    if (work != copy) free(work);
}

/* ------------------------------------------------------------------ */
/* driver: split into scenarios, fork one child each                   */
/* ------------------------------------------------------------------ */
#ifdef VCOV
void vcov_reset(void); void vcov_dump(const char *);
#endif
int main(int argc, char **argv) {
    if (argc < 2) { fprintf(stderr, "usage: vharness <scenario-file>\n"); return 2; }
    FILE *f = fopen(argv[1], "r");
    if (!f) { perror(argv[1]); return 2; }
    char *line = NULL; size_t cap = 0; ssize_t n;
    char **lines = NULL; size_t nl = 0, cl = 0;
    while ((n = getline(&line, &cap, f)) > 0) {
        if (nl == cl) { cl = cl ? cl * 2 : 1024; lines = realloc(lines, cl * sizeof *lines); }
        lines[nl++] = strdup(line);
    }
    fclose(f);
    size_t i = 0;
    setvbuf(stdout, NULL, _IOFBF, 1 << 20);
    while (i < nl) {
        if (strncmp(lines[i], "scenario", 8) != 0) { i++; continue; }
        size_t j = i + 1;
        while (j < nl && strncmp(lines[j], "scenario", 8) != 0) j++;
        char name[256]; sscanf(lines[i] + 8, "%255s", name);
        printf("## %s\n", name);
        fflush(stdout);
        pid_t pid = fork();
        if (pid == 0) {
#ifdef VCOV
            vcov_reset();
#endif
            ctx_defaults();
            for (size_t k = i + 1; k < j; k++) {
                if (lines[k][0] == '\n' || lines[k][0] == '%') continue;
                run_op(lines[k]);
                fflush(stdout);
            }
            fflush(stdout);
#ifdef VCOV
            vcov_dump(name);
#endif
            _exit(0);
        }
        int st = 0;
        waitpid(pid, &st, 0);
        if (WIFSIGNALED(st)) printf("! fault signal-%d\n", WTERMSIG(st));
        else if (WIFEXITED(st) && WEXITSTATUS(st) != 0 && WEXITSTATUS(st) != 4) printf("! fault exit-%d\n", WEXITSTATUS(st));
        fflush(stdout);
        i = j;
    }
    return 0;
}
