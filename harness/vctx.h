#ifndef VCTX_H
#define VCTX_H
#include <stddef.h>
#include <stdint.h>
#include "lltdAutomata.h"
/* Interface context handed to the core as iface_ctx.  The first block of
 * fields carries the names os/darwin/daemon/darwin-main.h uses, so the
 * frame-processing flow sliced out of darwin-main.c compiles against it. */
typedef struct vctx {
    /* fields the Darwin frame-processing flow touches */
    const char *deviceName;
    uint8_t macAddress[6];
    uint8_t MapperHwAddress[6];
    uint16_t MapperGenerationTopology;
    uint16_t MapperGenerationQuick;
    uint64_t LastHelloTxMs;
    void *recvBuffer;
    automata *mappingAutomata;
    automata *sessionAutomata;
    automata *enumerationAutomata;
    session_table *sessionTable;
    /* verification-port configuration */
    int id;
    size_t mtu;
    int mtufail, macfail;
    uint32_t flags;
    uint32_t iftype; int iftypefail;
    uint32_t ipv4; int ipv4fail;        /* given as 4 wire bytes a.b.c.d packed big-endian */
    uint8_t ipv6[16]; int ipv6fail;
    uint32_t speed; int speedfail;
    int wifi; uint8_t wifimode;          /* wifi=0: get_wifi_mode fails */
    uint8_t bssid[6]; int bssidfail;
    uint8_t ssid[64]; size_t ssidlen;
    uint16_t rate; int ratefail;
    int rssi; int rssifail;
    long mtufailat, macfailat;          /* > 0: the n-th call of that getter from now fails (once) */
    uint32_t phy; int phyok;            /* lltd_port_get_wifi_phy_medium succeeds only when phyok is set */
} vctx;
#endif
