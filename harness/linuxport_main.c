/*
 * C04, Linux platform layer: os/linux/lltd_port.c compiled AS IS (it defines
 * the lltd_port_* getters itself) and driven with network_interface_t field
 * values.  Same output grammar as vharness.c.
 *   linux <mac-hex> <MTU> <ifType> <LinkSpeed> <MediumType> <flags>
 */
#include <stdint.h>
#include <stdio.h>
#include <stdlib.h>
#include <string.h>
#include "lltdPort.h"
#include "lltdProtocol.h"
#include "daemon/linux-main.h"

lltd_global_info_t globalInfo;

static int hexval(int c) { if (c >= '0' && c <= '9') return c - '0'; if (c >= 'a' && c <= 'f') return c - 'a' + 10; if (c >= 'A' && c <= 'F') return c - 'A' + 10; return 0; }

int main(int argc, char **argv) {
    if (argc < 2) return 2;
    FILE *f = fopen(argv[1], "r");
    if (!f) return 2;
    char line[4096];
    while (fgets(line, sizeof line, f)) {
        if (!strncmp(line, "scenario", 8)) { char n[256]; sscanf(line + 8, "%255s", n); printf("## %s\n", n); continue; }
        if (strncmp(line, "linux ", 6)) continue;
        printf("# %s", line);
        char mac[64]; unsigned long mtu, ift, spd, med, fl;
        if (sscanf(line + 6, "%63s %lu %lu %lu %lu %lu", mac, &mtu, &ift, &spd, &med, &fl) != 6) { printf("= bad\n"); continue; }
        network_interface_t ni; memset(&ni, 0, sizeof ni);
        ni.deviceName = "verif0"; ni.socket = -1;
        for (int i = 0; i < 6; i++) ni.macAddress[i] = (uint8_t)(hexval(mac[2 * i]) * 16 + hexval(mac[2 * i + 1]));
        ni.MTU = (uint32_t)mtu; ni.ifType = (uint32_t)ift; ni.LinkSpeed = (uint32_t)spd; ni.MediumType = (uint32_t)med; ni.flags = (uint32_t)fl;
        ethernet_address_t m; memset(&m, 0, sizeof m);
        size_t omtu = 0; uint32_t oift = 0, ospd = 0;
        int r1 = lltd_port_get_mac_address(&ni, &m);
        int r2 = lltd_port_get_mtu(&ni, &omtu);
        int r3 = lltd_port_get_if_type(&ni, &oift);
        int r4 = lltd_port_get_link_speed_100bps(&ni, &ospd);
        uint32_t ofl = lltd_port_get_characteristics_flags(&ni);
        uint8_t wm = 0;
        int r5 = lltd_port_get_wifi_mode(&ni, &wm);
        printf("= mac=%02x%02x%02x%02x%02x%02x mtu=%zu iftype=%u speed=%u flags=%u rc=%d%d%d%d wifi=%d\n",
               m.a[0], m.a[1], m.a[2], m.a[3], m.a[4], m.a[5], omtu, oift, ospd, ofl, r1 ? 1 : 0, r2 ? 1 : 0, r3 ? 1 : 0, r4 ? 1 : 0, r5 == 0);
    }
    return 0;
}
