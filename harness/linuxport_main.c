/*
 * C04, Linux platform layer: os/linux/lltd_port.c compiled AS IS (it defines
 * the lltd_port_* getters itself) and driven with network_interface_t field
 * values.  Same output grammar as vharness.c.
 *   linux <mac-hex> <MTU> <ifType> <LinkSpeed> <MediumType> <flags>
 */
#include <stdint.h>
#include <stdio.h>
#include <stdlib.h>
#include <string.h>
#include "lltdPort.h"
#include "lltdProtocol.h"
#include "daemon/linux-main.h"

lltd_global_info_t globalInfo;

static int hexval(int c) { if (c >= '0' && c <= '9') return c - '0'; if (c >= 'a' && c <= 'f') return c - 'a' + 10; if (c >= 'A' && c <= 'F') return c - 'A' + 10; return 0; }

/* --sweep: every 32-bit LinkSpeed through lltd_port_get_link_speed_100bps, every 32-bit MediumType and every 32-bit
 * flags word through lltd_port_get_characteristics_flags, every 32-bit MTU / ifType through their getters; prints the
 * first few values on which a getter distorts the record and the number of such values. */
static int sweep(unsigned chunk, unsigned nchunks) {
    network_interface_t ni; memset(&ni, 0, sizeof ni); ni.deviceName = "verif0"; ni.socket = -1;
    unsigned long long bad = 0; int shown = 0;
    uint64_t lo = (0x100000000ull / nchunks) * chunk, hi = (chunk + 1 == nchunks) ? 0x100000000ull : (0x100000000ull / nchunks) * (chunk + 1);
    for (uint64_t v = lo; v < hi; v++) {
        uint32_t x = (uint32_t)v, o = 0; size_t m = 0;
        ni.LinkSpeed = x; ni.MediumType = x; ni.flags = 0; ni.MTU = x; ni.ifType = x;
        int r = lltd_port_get_link_speed_100bps(&ni, &o);
        if (r != 0 || o != x / 100u) { bad++; if (shown++ < 5) printf("BAD speed LinkSpeed=%u -> rc=%d value=%u, must be %u\n", x, r, o, x / 100u); }
        uint32_t f = lltd_port_get_characteristics_flags(&ni), want = (x & 0x10u) ? 0x2000u : 0u;
        if (f != want) { bad++; if (shown++ < 5) printf("BAD flags MediumType=%u flags=0 -> %u, must be %u\n", x, f, want); }
        ni.MediumType = 0; ni.flags = x;
        f = lltd_port_get_characteristics_flags(&ni); want = (x & 0x8u) ? 0x800u : 0u;
        if (f != want) { bad++; if (shown++ < 5) printf("BAD flags MediumType=0 flags=%u -> %u, must be %u\n", x, f, want); }
        r = lltd_port_get_mtu(&ni, &m);
        if (r != 0 || m != (size_t)x) { bad++; if (shown++ < 5) printf("BAD mtu MTU=%u -> rc=%d value=%zu\n", x, r, m); }
        r = lltd_port_get_if_type(&ni, &o);
        if (r != 0 || o != x) { bad++; if (shown++ < 5) printf("BAD iftype ifType=%u -> rc=%d value=%u\n", x, r, o); }
    }
    printf("sweep: values %llu..%llu x 5 getters, %llu distorted\n", (unsigned long long)lo, (unsigned long long)hi - 1, bad);
    return bad ? 1 : 0;
}

int main(int argc, char **argv) {
    if (argc >= 2 && !strcmp(argv[1], "--sweep")) return sweep(argc > 2 ? (unsigned)atoi(argv[2]) : 0, argc > 3 ? (unsigned)atoi(argv[3]) : 1);
    if (argc < 2) return 2;
    FILE *f = fopen(argv[1], "r");
    if (!f) return 2;
    char line[4096];
    while (fgets(line, sizeof line, f)) {
        if (!strncmp(line, "scenario", 8)) { char n[256]; sscanf(line + 8, "%255s", n); printf("## %s\n", n); continue; }
        if (strncmp(line, "linux ", 6)) continue;
        printf("# %s", line);
        char mac[64]; unsigned long mtu, ift, spd, med, fl;
        if (sscanf(line + 6, "%63s %lu %lu %lu %lu %lu", mac, &mtu, &ift, &spd, &med, &fl) != 6) { printf("= bad\n"); continue; }
        network_interface_t ni; memset(&ni, 0, sizeof ni);
        ni.deviceName = "verif0"; ni.socket = -1;
        for (int i = 0; i < 6; i++) ni.macAddress[i] = (uint8_t)(hexval(mac[2 * i]) * 16 + hexval(mac[2 * i + 1]));
        ni.MTU = (uint32_t)mtu; ni.ifType = (uint32_t)ift; ni.LinkSpeed = (uint32_t)spd; ni.MediumType = (uint32_t)med; ni.flags = (uint32_t)fl;
        ethernet_address_t m; memset(&m, 0, sizeof m);
        size_t omtu = 0; uint32_t oift = 0, ospd = 0;
        int r1 = lltd_port_get_mac_address(&ni, &m);
        int r2 = lltd_port_get_mtu(&ni, &omtu);
        int r3 = lltd_port_get_if_type(&ni, &oift);
        int r4 = lltd_port_get_link_speed_100bps(&ni, &ospd);
        uint32_t ofl = lltd_port_get_characteristics_flags(&ni);
        uint8_t wm = 0;
        int r5 = lltd_port_get_wifi_mode(&ni, &wm);
        printf("= mac=%02x%02x%02x%02x%02x%02x mtu=%zu iftype=%u speed=%u flags=%u rc=%d%d%d%d wifi=%d\n",
               m.a[0], m.a[1], m.a[2], m.a[3], m.a[4], m.a[5], omtu, oift, ospd, ofl, r1 ? 1 : 0, r2 ? 1 : 0, r3 ? 1 : 0, r4 ? 1 : 0, r5 == 0);
    }
    return 0;
}
