/* cov.c - coverage feedback for bin/explore.py (linked only into _build/vharness_cov).
   The core is compiled by clang with -fsanitize-coverage=trace-pc-guard,trace-cmp; the callbacks below record, per
   scenario (= per forked child), which edges of the core were reached and which constants / operand pairs the core
   compared against, and append them to the file named by $VCOV_OUT at the end of the scenario:
       ^ <scenario> e <edge ids...>
       ^ <scenario> c <values...>
   Nothing here influences the behaviour of the core; the exploration only decides WHICH scenarios are then run
   through the ordinary pipeline (model vs implementation, oracles). */
#include <stdint.h>
#include <stdio.h>
#include <stdlib.h>
#include <string.h>
#define MAXG 65536
static uint8_t hit[MAXG];
static uint32_t nguard = 0;
#define MAXC 192
static uint64_t consts[MAXC]; static int nconst = 0;
static void addc(uint64_t v) {
    if (v <= 1) return;
    for (int i = 0; i < nconst; i++) if (consts[i] == v) return;
    if (nconst < MAXC) consts[nconst++] = v;
}
void __sanitizer_cov_trace_pc_guard_init(uint32_t *start, uint32_t *stop) {
    if (start == stop || *start) return;
    for (uint32_t *x = start; x < stop; x++) *x = ++nguard;
}
void __sanitizer_cov_trace_pc_guard(uint32_t *guard) { if (*guard && *guard < MAXG) hit[*guard] = 1; }
void __sanitizer_cov_trace_const_cmp1(uint8_t a, uint8_t b) { addc(a); }
void __sanitizer_cov_trace_const_cmp2(uint16_t a, uint16_t b) { addc(a); }
void __sanitizer_cov_trace_const_cmp4(uint32_t a, uint32_t b) { addc(a); }
void __sanitizer_cov_trace_const_cmp8(uint64_t a, uint64_t b) { addc(a); }
void __sanitizer_cov_trace_cmp1(uint8_t a, uint8_t b) { if (a != b) { addc(a); addc(b); } }
void __sanitizer_cov_trace_cmp2(uint16_t a, uint16_t b) { if (a != b) { addc(a); addc(b); } }
void __sanitizer_cov_trace_cmp4(uint32_t a, uint32_t b) { if (a != b) { addc(a); addc(b); } }
void __sanitizer_cov_trace_cmp8(uint64_t a, uint64_t b) { if (a != b) { addc(a); addc(b); } }
void __sanitizer_cov_trace_switch(uint64_t v, uint64_t *cases) { for (uint64_t i = 0; i < cases[0] && i < 64; i++) addc(cases[2 + i]); }
void __sanitizer_cov_trace_div4(uint32_t v) { }
void __sanitizer_cov_trace_div8(uint64_t v) { }
void __sanitizer_cov_trace_gep(uintptr_t i) { }
void vcov_reset(void) { memset(hit, 0, sizeof hit); nconst = 0; }
void vcov_dump(const char *scn) {
    const char *p = getenv("VCOV_OUT"); if (!p) return;
    FILE *f = fopen(p, "a"); if (!f) return;
    fprintf(f, "^ %s e", scn);
    for (uint32_t i = 1; i <= nguard && i < MAXG; i++) if (hit[i]) fprintf(f, " %x", i);
    fprintf(f, "\n^ %s c", scn);
    for (int i = 0; i < nconst; i++) fprintf(f, " %llx", (unsigned long long)consts[i]);
    fprintf(f, "\n"); fclose(f);
}
