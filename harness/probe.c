/*
 * Fact probe (DESIGN.md 4.1).  Compiled against /repo's working tree on every
 * run; prints what the compiler lays out, what the preprocessor defines and
 * what the automata constructors actually build.  bin/genfacts.py turns the
 * output into coq/gen/Extracted.v.
 */
#include <stddef.h>
#include <stdio.h>
#include <stdlib.h>
#include <string.h>
#include <stdarg.h>

#include "lltdBlock.c" /* for the static per-interface record and its private defines */
#include "lltdAutomata.h"

#define SZ(name, t) printf("N %s %zu\n", name, sizeof(t))
#define OF(name, t, f) printf("N %s %zu\n", name, offsetof(t, f))
#define DEF(name) printf("Z %s %lld\n", #name, (long long)(name))

/* minimal port: the constructors only need malloc and the clock */
uint64_t lltd_port_monotonic_seconds(void) { return 0; }
uint64_t lltd_port_monotonic_milliseconds(void) { return 0; }
void *lltd_port_malloc(size_t n) { return calloc(1, n ? n : 1); }
void lltd_port_free(void *p) { free(p); }
void *lltd_port_memset(void *p, int v, size_t n) { return memset(p, v, n); }
void *lltd_port_memcpy(void *d, const void *s, size_t n) { return memcpy(d, s, n); }
int lltd_port_memcmp(const void *a, const void *b, size_t n) { return memcmp(a, b, n); }
void lltd_port_sleep_ms(uint32_t ms) { (void)ms; }
int lltd_port_send_frame(void *c, const void *f, size_t n) { (void)c; (void)f; (void)n; return 0; }
int lltd_port_get_mtu(void *c, size_t *o) { (void)c; *o = 1500; return 0; }
int lltd_port_get_icon_image(void **d, size_t *s) { (void)d; (void)s; return -1; }
int lltd_port_get_friendly_name(void **d, size_t *s) { (void)d; (void)s; return -1; }
size_t lltd_port_get_hostname(void *d, size_t n) { (void)d; (void)n; return 0; }
size_t lltd_port_get_support_url(void *d, size_t n) { (void)d; (void)n; return 0; }
int lltd_port_get_upnp_uuid(uint8_t o[16]) { (void)o; return -1; }
size_t lltd_port_get_hw_id(void *d, size_t n) { (void)d; (void)n; return 0; }
int lltd_port_get_mac_address(void *c, ethernet_address_t *o) { (void)c; (void)o; return -1; }
uint32_t lltd_port_get_characteristics_flags(void *c) { (void)c; return 0; }
int lltd_port_get_if_type(void *c, uint32_t *o) { (void)c; (void)o; return -1; }
int lltd_port_get_ipv4_address(void *c, uint32_t *o) { (void)c; (void)o; return -1; }
int lltd_port_get_ipv6_address(void *c, uint8_t o[16]) { (void)c; (void)o; return -1; }
int lltd_port_get_link_speed_100bps(void *c, uint32_t *o) { (void)c; (void)o; return -1; }
int lltd_port_get_wifi_mode(void *c, uint8_t *o) { (void)c; (void)o; return -1; }
int lltd_port_get_bssid(void *c, uint8_t o[6]) { (void)c; (void)o; return -1; }
size_t lltd_port_get_ssid(void *c, void *d, size_t n) { (void)c; (void)d; (void)n; return 0; }
int lltd_port_get_wifi_max_rate_0_5mbps(void *c, uint16_t *o) { (void)c; (void)o; return -1; }
int lltd_port_get_wifi_rssi_dbm(void *c, int8_t *o) { (void)c; (void)o; return -1; }
int lltd_port_get_wifi_phy_medium(void *c, uint32_t *o) { (void)c; (void)o; return -1; }
void lltd_port_log_debug(const char *f, ...) { (void)f; }
void lltd_port_log_warning(const char *f, ...) { (void)f; }

static void dump(const char *n, automata *a) {
    if (!a) { printf("E constructor %s returned NULL\n", n); return; }
    printf("A %s init %u states %u trans %u\n", n, a->current_state, a->states_no, a->transitions_no);
    for (int i = 0; i < a->states_no; i++) printf("S %s %d %d\n", n, i, (int)a->states_table[i].timeout);
    for (int i = 0; i < a->transitions_no; i++) printf("T %s %u %u %d\n", n, a->transitions_table[i].from, a->transitions_table[i].to, (int)a->transitions_table[i].with);
}

int main(void) {
    /* base header */
    SZ("sz_hdr", lltd_demultiplex_header_t);
    OF("of_edst", lltd_demultiplex_header_t, frameHeader.destination);
    OF("of_esrc", lltd_demultiplex_header_t, frameHeader.source);
    OF("of_etype", lltd_demultiplex_header_t, frameHeader.ethertype);
    OF("of_version", lltd_demultiplex_header_t, version);
    OF("of_tos", lltd_demultiplex_header_t, tos);
    OF("of_reserved", lltd_demultiplex_header_t, reserved);
    OF("of_opcode", lltd_demultiplex_header_t, opcode);
    OF("of_rdst", lltd_demultiplex_header_t, realDestination);
    OF("of_rsrc", lltd_demultiplex_header_t, realSource);
    OF("of_seq", lltd_demultiplex_header_t, seqNumber);
    SZ("sz_mac", ethernet_address_t);
    /* upper headers */
    OF("of_disc_gen", lltd_discover_upper_header_t, generation);
    OF("of_disc_count", lltd_discover_upper_header_t, stationNumber);
    OF("of_disc_list", lltd_discover_upper_header_t, stationList);
    printf("N station_stride %zu\n", sizeof(((lltd_discover_upper_header_t *)0)->stationList[0]));
    SZ("sz_emit_hdr", lltd_emit_upper_header_t);
    SZ("sz_emitee", emitee_descs);
    OF("of_emitee_type", emitee_descs, type);
    OF("of_emitee_pause", emitee_descs, pause);
    OF("of_emitee_src", emitee_descs, sourceAddr);
    OF("of_emitee_dst", emitee_descs, destAddr);
    SZ("sz_hello_hdr", lltd_hello_upper_header_t);
    OF("of_hello_gen", lltd_hello_upper_header_t, generation);
    OF("of_hello_cur", lltd_hello_upper_header_t, currentMapper);
    OF("of_hello_app", lltd_hello_upper_header_t, apparentMapper);
    SZ("sz_qresp_hdr", qry_resp_upper_header_t);
    SZ("sz_qlt_hdr", qry_large_tlv_t);
    OF("of_qlt_type", qry_large_tlv_t, type);
    OF("of_qlt_offset", qry_large_tlv_t, offset);
    SZ("sz_qltresp_hdr", qry_large_tlv_resp_t);
    SZ("sz_tlv_hdr", generic_tlv_t);
    /* heap objects (ledger) */
    SZ("sz_probe_node", probe_t);
    SZ("sz_iface_state", lltd_iface_state);
    SZ("sz_automata", automata);
    SZ("sz_mapping_state", mapping_state);
    SZ("sz_band_state", band_state);
    SZ("sz_session_table", session_table);
    /* constants */
    DEF(lltdEtherType);
    DEF(tos_discovery); DEF(tos_quick_discovery); DEF(tos_qos_diagnostics);
    DEF(opcode_discover); DEF(opcode_hello); DEF(opcode_emit); DEF(opcode_train); DEF(opcode_probe);
    DEF(opcode_ack); DEF(opcode_query); DEF(opcode_queryResp); DEF(opcode_reset); DEF(opcode_charge);
    DEF(opcode_flat); DEF(opcode_queryLargeTlv); DEF(opcode_queryLargeTlvResp);
    DEF(tlv_hostId); DEF(tlv_characterisics); DEF(tlv_ifType); DEF(tlv_wifimode); DEF(tlv_bssid); DEF(tlv_ssid);
    DEF(tlv_ipv4); DEF(tlv_ipv6); DEF(tlv_wifiMaxRate); DEF(tlv_perfCounterFrequency); DEF(tlv_linkSpeed);
    DEF(tlv_wifiRssi); DEF(tlv_iconImage); DEF(tlv_hostname); DEF(tlv_friendlyName); DEF(tlv_hwIdProperty);
    DEF(tlv_qos_characteristics); DEF(eofpropmarker);
    DEF(Config_TLV_QOS_L2Fwd); DEF(Config_TLV_QOS_VLAN); DEF(Config_TLV_QOS_PrioTag);
    DEF(Config_TLV_NetworkInterfaceDuplex_Value); DEF(Config_TLV_InterfaceIsLoopback_Value);
    DEF(BAND_NMAX); DEF(BAND_ALPHA); DEF(BAND_BETA); DEF(BAND_GAMMA); DEF(BAND_TXC); DEF(BAND_BLOCK_TIME);
    DEF(HELLO_MIN_INTERVAL_MS);
    printf("Z BAND_MUL_FRAME_1 %lld\n", (long long)BAND_MUL_FRAME(1));
    DEF(SESSION_TABLE_MAX_ENTRIES); DEF(MAX_TRANSITIONS); DEF(MAX_STATES);
    DEF(sess_discover_conflicting); DEF(sess_reset); DEF(sess_discover_noack); DEF(sess_discover_acking);
    DEF(sess_discover_noack_chgd_xid); DEF(sess_discover_acking_chgd_xid); DEF(sess_topo_reset); DEF(sess_hello);
    DEF(enum_sess_complete); DEF(enum_sess_not_complete); DEF(enum_hello); DEF(enum_new_session);
#ifdef LLTD_SEE_LIST_MAX
    DEF(LLTD_SEE_LIST_MAX);
#else
    printf("Z LLTD_SEE_LIST_MAX 0\n"); /* 0 = no cap in the source */
#endif
    dump("mapping", init_automata_mapping());
    dump("session", init_automata_session());
    dump("enumeration", init_automata_enumeration());
    return 0;
}
