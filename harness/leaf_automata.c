/* leaf_automata.c - the static address helpers of lltdAutomata.c against their specification, for all inputs (CBMC).
   The file is included so that the statics are reachable; port functions without a body are left to CBMC (nondet). */
#include "lltdAutomata.c"
uint8_t nondet_u8(void);
void leaf_mac_equal(void) {
    uint8_t a[6], b[6]; bool same = true;
    for (int i = 0; i < 6; i++) { a[i] = nondet_u8(); b[i] = nondet_u8(); if (a[i] != b[i]) same = false; }
    __CPROVER_assert(mac_equal(a, b) == same, "mac_equal holds iff all six octets are equal");
}
void leaf_mac_copy(void) {
    uint8_t d[8], s[6], before6 = nondet_u8(), before7 = nondet_u8();
    for (int i = 0; i < 6; i++) { s[i] = nondet_u8(); d[i] = nondet_u8(); }
    d[6] = before6; d[7] = before7;
    mac_copy(d, s);
    for (int i = 0; i < 6; i++) __CPROVER_assert(d[i] == s[i], "mac_copy copies all six octets");
    __CPROVER_assert(d[6] == before6 && d[7] == before7, "mac_copy writes six octets only");
}
