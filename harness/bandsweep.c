/* Exhaustive sweep of the real band_update_stats over every r in [0, 2^32)
 * against min(NMAX, ALPHA * r^2) computed in 128-bit arithmetic (C13, thorough). */
#include <stdarg.h>
#include <stdint.h>
#include <stdio.h>
#include <stdlib.h>
#include <string.h>
#include "lltdAutomata.h"
#include "lltdPort.h"
uint64_t lltd_port_monotonic_seconds(void) { return 0; }
uint64_t lltd_port_monotonic_milliseconds(void) { return 0; }
void *lltd_port_malloc(size_t n) { return malloc(n); }
void lltd_port_free(void *p) { free(p); }
void *lltd_port_memset(void *p, int v, size_t n) { return memset(p, v, n); }
void lltd_port_log_debug(const char *f, ...) { (void)f; }
void lltd_port_log_warning(const char *f, ...) { (void)f; }
int main(void) {
    unsigned long long bad = 0; unsigned long long first = 0;
#pragma omp parallel for reduction(+:bad)
    for (long long r = 0; r < (1LL << 32); r++) {
        band_state b; memset(&b, 0, sizeof b);
        b.Ni = 45; b.r = (uint32_t)r; b.begun = 1;
        band_update_stats(&b);
        unsigned __int128 want = (unsigned __int128)45 * (unsigned __int128)r * (unsigned __int128)r;
        uint32_t w = r == 0 ? 45 : (want > 10000 ? 10000u : (uint32_t)want);
        if (b.Ni != w) {
            bad++;
#pragma omp critical
            if (first == 0 || (unsigned long long)r < first) first = (unsigned long long)r;
        }
    }
    printf("swept 4294967296 values of r, %llu wrong, first wrong r = %llu\n", bad, first);
    return bad ? 1 : 0;
}
