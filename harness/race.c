/*
 * C17, concurrent half: two receive threads, one per interface, exactly as
 * the daemons run lltdLoop, released together by a barrier so that both
 * interfaces see their FIRST frame at the same moment.  Built with
 * -fsanitize=thread against the working-tree core.  The port below has no
 * shared mutable state of its own (counters are atomics), so every data race
 * ThreadSanitizer reports lies in the core.
 * After the threads have joined, each interface receives a Query: an interface
 * whose record was lost (lost update on the registry head) allocates a second
 * record - reported as "records=<n>" (2 = fine, more = a record was lost).
 */
#define _GNU_SOURCE
#include <pthread.h>
#include <stdatomic.h>
#include <stdint.h>
#include <stdio.h>
#include <stdlib.h>
#include <string.h>
#include "lltdBlock.h"
#include "lltdPort.h"
#include "lltdProtocol.h"

typedef struct { int id; uint8_t mac[6]; atomic_long sends; } rctx;
static atomic_long g_big_allocs;   /* allocations of the size of an interface record or larger than a probe node */
static size_t g_rec_size = 0;

uint64_t lltd_port_monotonic_seconds(void) { return 1; }
uint64_t lltd_port_monotonic_milliseconds(void) { return 1000; }
void *lltd_port_malloc(size_t n) { if (n == g_rec_size) atomic_fetch_add(&g_big_allocs, 1); return malloc(n); }
void lltd_port_free(void *p) { free(p); }
void *lltd_port_memset(void *p, int v, size_t n) { return memset(p, v, n); }
void *lltd_port_memcpy(void *d, const void *s, size_t n) { return memcpy(d, s, n); }
int lltd_port_memcmp(const void *a, const void *b, size_t n) { return memcmp(a, b, n); }
void lltd_port_sleep_ms(uint32_t ms) { (void)ms; }
int lltd_port_send_frame(void *c, const void *f, size_t n) { (void)f; (void)n; atomic_fetch_add(&((rctx *)c)->sends, 1); return 0; }
int lltd_port_get_mtu(void *c, size_t *o) { (void)c; *o = 1500; return 0; }
/* large properties are present: each call hands over a fresh block, as the port contract says */
int lltd_port_get_icon_image(void **d, size_t *s) { *s = 2000; *d = malloc(*s); if (!*d) return -1; memset(*d, 0x5a, *s); return 0; }
int lltd_port_get_friendly_name(void **d, size_t *s) { *s = 24; *d = malloc(*s); if (!*d) return -1; memset(*d, 0x41, *s); return 0; }
size_t lltd_port_get_hostname(void *d, size_t n) { (void)d; (void)n; return 0; }
size_t lltd_port_get_support_url(void *d, size_t n) { (void)d; (void)n; return 0; }
int lltd_port_get_upnp_uuid(uint8_t o[16]) { (void)o; return -1; }
size_t lltd_port_get_hw_id(void *d, size_t n) { size_t k = n < 30 ? n : 30; memset(d, 0x48, k); return k; }
int lltd_port_get_mac_address(void *c, ethernet_address_t *o) { memcpy(o->a, ((rctx *)c)->mac, 6); return 0; }
uint32_t lltd_port_get_characteristics_flags(void *c) { (void)c; return 0; }
int lltd_port_get_if_type(void *c, uint32_t *o) { (void)c; *o = 6; return 0; }
int lltd_port_get_ipv4_address(void *c, uint32_t *o) { (void)c; *o = 0; return 0; }
int lltd_port_get_ipv6_address(void *c, uint8_t o[16]) { (void)c; memset(o, 0, 16); return 0; }
int lltd_port_get_link_speed_100bps(void *c, uint32_t *o) { (void)c; *o = 1; return 0; }
int lltd_port_get_wifi_mode(void *c, uint8_t *o) { (void)c; (void)o; return -1; }
int lltd_port_get_bssid(void *c, uint8_t o[6]) { (void)c; (void)o; return -1; }
size_t lltd_port_get_ssid(void *c, void *d, size_t n) { (void)c; (void)d; (void)n; return 0; }
int lltd_port_get_wifi_max_rate_0_5mbps(void *c, uint16_t *o) { (void)c; (void)o; return -1; }
int lltd_port_get_wifi_rssi_dbm(void *c, int8_t *o) { (void)c; (void)o; return -1; }
int lltd_port_get_wifi_phy_medium(void *c, uint32_t *o) { (void)c; (void)o; return -1; }
void lltd_port_log_debug(const char *f, ...) { (void)f; }
void lltd_port_log_warning(const char *f, ...) { (void)f; }

static pthread_barrier_t g_bar;
static int g_frames = 1;
static void mkframe(uint8_t *b, const uint8_t *own, int opcode, int seq, int k) {
    memset(b, 0, 1500);
    memset(b, 0xFF, 6); b[6] = 2; b[11] = (uint8_t)(1 + k); b[12] = 0x88; b[13] = 0xD9; b[14] = 1; b[15] = 0; b[17] = (uint8_t)opcode;
    memcpy(b + 18, own, 6); if (opcode == 0) memset(b + 18, 0xFF, 6);
    b[24] = 2; b[29] = 1; b[30] = (uint8_t)(seq >> 8); b[31] = (uint8_t)seq;
    b[33] = 7;
}
static void *loop(void *arg) {
    rctx *c = arg;
    uint8_t *buf = malloc(1500);
    pthread_barrier_wait(&g_bar);
    for (int i = 0; i < g_frames; i++) {
        /* first frame: Discover; then Probes from changing sources, a Query now and then */
        if (i == 0) mkframe(buf, c->mac, 0, 1, 0);
        else if (i % 7 == 6) mkframe(buf, c->mac, 6, 2 + i, 0);
        else if (i % 5 == 1) {   /* Emit with two descriptors: Probe/Train + ACK are built and sent by this thread */
            mkframe(buf, c->mac, 2, 2 + i, 0);
            buf[32] = 0; buf[33] = 2;
            buf[34] = 1; buf[35] = 0; buf[36] = 2; buf[41] = (uint8_t)(0x60 + c->id); memcpy(buf + 42, c->mac, 6);
            buf[48] = 0; buf[49] = 0; buf[50] = 2; buf[55] = (uint8_t)(0x70 + c->id); memcpy(buf + 56, c->mac, 6);
        }
        else if (i % 11 == 3 || i % 13 == 2) { static const uint8_t ty[3] = { 17, 19, 14 }; mkframe(buf, c->mac, 0x0B, 2 + i, 0); buf[32] = ty[(i / 3) % 3]; buf[34] = 0; buf[35] = (uint8_t)((i % 2) * 8); }   /* friendly name, hardware id, icon: the large-property paths */
        else mkframe(buf, c->mac, 4, 0, i);
        parseFrame(buf, c);
    }
    free(buf);
    return NULL;
}
int main(int argc, char **argv) {
    g_rec_size = argc > 1 ? (size_t)atol(argv[1]) : 64;
    g_frames = argc > 2 ? atoi(argv[2]) : 1;
    rctx c[2]; memset(c, 0, sizeof c);
    for (int i = 0; i < 2; i++) { c[i].id = i; c[i].mac[0] = 2; c[i].mac[5] = (uint8_t)(0x10 + i); }
    pthread_barrier_init(&g_bar, NULL, 2);
    pthread_t t[2];
    for (int i = 0; i < 2; i++) pthread_create(&t[i], NULL, loop, &c[i]);
    for (int i = 0; i < 2; i++) pthread_join(t[i], NULL);
    /* sequentially now: one Query per interface; a lost record shows up as a third record allocation */
    uint8_t *buf = malloc(1500);
    for (int i = 0; i < 2; i++) { mkframe(buf, c[i].mac, 6, 99, 0); parseFrame(buf, &c[i]); }
    free(buf);
    printf("records=%ld sends0=%ld sends1=%ld\n", atomic_load(&g_big_allocs), atomic_load(&c[0].sends), atomic_load(&c[1].sends));
    return 0;
}
