/*
 * The Darwin daemon's per-frame flow (Documentation/automata_runtime.md,
 * os/darwin/daemon/darwin-main.c) cannot be built here (IOKit, AF_NDRV), so
 * bin/slice_flow.py cuts the frame-processing statements and the tick wiring
 * out of darwin-main.c's receive loop on every run and this file compiles
 * them verbatim against the verification context.
 */
#include <arpa/inet.h>
#include <stdio.h>
#include <string.h>
#include <sys/types.h>

#include "lltdAutomata.h"
#include "lltdBlock.h"
#include "lltdProtocol.h"
#include "vctx.h"

#define log_debug(...) ((void)0)
#define log_err(...) ((void)0)
#define log_notice(...) ((void)0)
typedef vctx network_interface_t;

extern void flow_send_hello_record(void *ni);
static void sendHelloMessage(void *networkInterface) { flow_send_hello_record(networkInterface); }

void flow_run(void *ctx, long recvLen_) {
    network_interface_t *currentNetworkInterface = ctx;
    ssize_t recvLen = (ssize_t)recvLen_;
    (void)recvLen;
#include "flow_frame.inc"
}

void flow_tick(void *ctx) {
    network_interface_t *currentNetworkInterface = ctx;
#include "flow_tick.inc"
}
