/*
 * The Darwin daemon's per-frame flow (Documentation/automata_runtime.md,
 * os/darwin/daemon/darwin-main.c) cannot be built here (IOKit, AF_NDRV), so
 * bin/slice_flow.py cuts the frame-processing statements and the tick wiring
 * out of darwin-main.c's receive loop on every run and this file compiles
 * them verbatim against the verification context.
 */
#include <arpa/inet.h>
#include <stdio.h>
#include <string.h>
#include <sys/types.h>

#include "lltdAutomata.h"
#include "lltdBlock.h"
#include "lltdProtocol.h"
#include "vctx.h"

#define log_debug(...) ((void)0)
#define log_err(...) ((void)0)
#define log_notice(...) ((void)0)
typedef vctx network_interface_t;

extern void flow_send_hello_record(void *ni);
static void sendHelloMessage(void *networkInterface) { flow_send_hello_record(networkInterface); }

#ifdef NO_FLOW
/* The frame-processing flow could not be sliced out of darwin-main.c (its anchors moved): the documented flow is then
 * unavailable ("flow" operations do nothing, property C12 cannot be re-established); the tick keeps working with the
 * wiring written out here, so that the properties which only need a tick are not affected. */
void flow_run(void *ctx, long recvLen_) { (void)ctx; (void)recvLen_; }
void flow_tick(void *ctx) {
    network_interface_t *currentNetworkInterface = ctx;
    lltd_automata_tick_port tick_port = {
        .network_interface = currentNetworkInterface,
        .last_hello_tx_ms = &currentNetworkInterface->LastHelloTxMs,
        .send_hello = sendHelloMessage,
    };
    automata_tick(currentNetworkInterface->mappingAutomata, currentNetworkInterface->enumerationAutomata, currentNetworkInterface->sessionTable, &tick_port);
}
#else
void flow_run(void *ctx, long recvLen_) {
    network_interface_t *currentNetworkInterface = ctx;
    ssize_t recvLen = (ssize_t)recvLen_;
    (void)recvLen;
#include "flow_frame.inc"
}

void flow_tick(void *ctx) {
    network_interface_t *currentNetworkInterface = ctx;
#include "flow_tick.inc"
}
#endif
