/* leaf.c - leaf functions of the core against their specification, for ALL inputs, by CBMC (bin/leafcheck.py).
   The model treats these functions as what the specifications below say (addresses compare by all six octets, headers and
   property TLVs are the byte strings of MS-LLTD); the differential harness samples them, this file closes the gap for
   the functions small enough to be decided symbolically.  One entry point per function; each is run with
   `cbmc --function <entry>`.  Not a proof about the system: a complete correspondence check of the leaves. */
#include <stdint.h>
#include <stddef.h>
#include <stdbool.h>
#include "lltdWire.h"
#include "lltdTlvOps.h"
#include "lltdPort.h"

/* ---- verification stubs of the port functions the leaves call ---- */
void *lltd_port_memcpy(void *d, const void *s, size_t n) { uint8_t *dd = d; const uint8_t *ss = s; for (size_t i = 0; i < n; i++) dd[i] = ss[i]; return d; }
void *lltd_port_memset(void *p, int v, size_t n) { uint8_t *pp = p; for (size_t i = 0; i < n; i++) pp[i] = (uint8_t)v; return p; }
int nondet_int(void); uint32_t nondet_u32(void); uint8_t nondet_u8(void); int8_t nondet_i8(void); uint16_t nondet_u16(void);
static int g_ok; static uint32_t g_u32; static uint8_t g_b16[16]; static int8_t g_i8;
int lltd_port_get_ipv4_address(void *c, uint32_t *out) { if (g_ok) { *out = g_u32; return 0; } return -1; }
int lltd_port_get_ipv6_address(void *c, uint8_t out[16]) { if (g_ok) { for (int i = 0; i < 16; i++) out[i] = g_b16[i]; return 0; } return -1; }
int lltd_port_get_link_speed_100bps(void *c, uint32_t *out) { if (g_ok) { *out = g_u32; return 0; } return -1; }
uint32_t lltd_port_get_characteristics_flags(void *c) { return g_u32; }
int lltd_port_get_wifi_rssi_dbm(void *c, int8_t *out) { if (g_ok) { *out = g_i8; return 0; } return -1; }

#define N 64
static uint8_t buf[N], before[N];
static void havoc_buf(void) { for (int i = 0; i < N; i++) { buf[i] = nondet_u8(); before[i] = buf[i]; } }
static void untouched(size_t from, size_t to) { for (size_t i = from; i < to; i++) __CPROVER_assert(buf[i] == before[i], "bytes outside the written region are untouched"); }
static ethernet_address_t nondet_mac(void) { ethernet_address_t m; for (int i = 0; i < 6; i++) m.a[i] = nondet_u8(); return m; }
static void same6(const uint8_t *p, const ethernet_address_t *m, const char *what) { for (int i = 0; i < 6; i++) __CPROVER_assert(p[i] == m->a[i], "address field"); }

void leaf_compareEthernetAddress(void) {
    ethernet_address_t A = nondet_mac(), B = nondet_mac();
    bool same = true; for (int i = 0; i < 6; i++) if (A.a[i] != B.a[i]) same = false;
    __CPROVER_assert(compareEthernetAddress(&A, &B) == same, "compareEthernetAddress holds iff all six octets are equal");
}
static void header_is(const ethernet_address_t *es, const ethernet_address_t *ed, const ethernet_address_t *rs, const ethernet_address_t *rd, uint16_t seq, uint8_t opc, uint8_t tos, size_t ret) {
    __CPROVER_assert(ret == 32, "base header is 32 bytes");
    same6(buf, ed, "Ethernet destination"); same6(buf + 6, es, "Ethernet source");
    __CPROVER_assert(buf[12] == 0x88 && buf[13] == 0xD9, "EtherType 0x88D9");
    __CPROVER_assert(buf[14] == 1, "version 1"); __CPROVER_assert(buf[15] == tos, "type of service"); __CPROVER_assert(buf[17] == opc, "opcode");
    same6(buf + 18, rd, "real destination"); same6(buf + 24, rs, "real source");
    __CPROVER_assert(buf[30] == (seq >> 8) && buf[31] == (seq & 255), "sequence number big-endian");
    untouched(32, N);
}
void leaf_setLltdHeaderEx(void) {
    ethernet_address_t es = nondet_mac(), ed = nondet_mac(), rs = nondet_mac(), rd = nondet_mac(); uint16_t seq = nondet_u16(); uint8_t opc = nondet_u8(), tos = nondet_u8();
    havoc_buf(); size_t r = setLltdHeaderEx(buf, &es, &ed, &rs, &rd, seq, opc, tos); header_is(&es, &ed, &rs, &rd, seq, opc, tos, r);
}
void leaf_setLltdHeader(void) {
    ethernet_address_t s = nondet_mac(), d = nondet_mac(); uint16_t seq = nondet_u16(); uint8_t opc = nondet_u8(), tos = nondet_u8();
    havoc_buf(); size_t r = setLltdHeader(buf, &s, &d, seq, opc, tos); header_is(&s, &d, &s, &d, seq, opc, tos, r);
}
void leaf_setHelloHeader(void) {
    ethernet_address_t app = nondet_mac(), cur = nondet_mac(); uint16_t gen = nondet_u16(); size_t off = 32;
    havoc_buf(); size_t r = setHelloHeader(buf, off, &app, &cur, gen);
    __CPROVER_assert(r == 14, "Hello upper header is 14 bytes");
    __CPROVER_assert(buf[32] == (gen >> 8) && buf[33] == (gen & 255), "generation big-endian");
    same6(buf + 34, &cur, "current mapper"); same6(buf + 40, &app, "apparent mapper");
    untouched(0, 32); untouched(46, N);
}
static void tlv_is(size_t off, uint8_t type, uint8_t len, size_t ret) {
    __CPROVER_assert(ret == (size_t)len + 2, "TLV occupies 2 + length bytes"); __CPROVER_assert(buf[off] == type, "property type"); __CPROVER_assert(buf[off + 1] == len, "property length");
    untouched(0, off); untouched(off + 2 + len, N);
}
void leaf_setIPv4TLV(void) {
    g_ok = nondet_int() != 0; g_u32 = nondet_u32(); size_t off = nondet_u8() % 40; havoc_buf();
    size_t r = setIPv4TLV(buf, off, 0); tlv_is(off, 7, 4, r);
    uint32_t v = g_ok ? g_u32 : 0; uint8_t *m = (uint8_t *)&v;
    for (int i = 0; i < 4; i++) __CPROVER_assert(buf[off + 2 + i] == m[i], "IPv4 address as supplied (network order), zero when the platform has none");
}
void leaf_setIPv6TLV(void) {
    g_ok = nondet_int() != 0; for (int i = 0; i < 16; i++) g_b16[i] = nondet_u8(); size_t off = nondet_u8() % 40; havoc_buf();
    size_t r = setIPv6TLV(buf, off, 0); tlv_is(off, 8, 16, r);
    for (int i = 0; i < 16; i++) __CPROVER_assert(buf[off + 2 + i] == (g_ok ? g_b16[i] : 0), "IPv6 address as supplied, zero when the platform has none");
}
void leaf_setLinkSpeedTLV(void) {
    g_ok = nondet_int() != 0; g_u32 = nondet_u32(); size_t off = nondet_u8() % 40; havoc_buf();
    size_t r = setLinkSpeedTLV(buf, off, 0); tlv_is(off, 12, 4, r);
    uint32_t v = g_ok ? g_u32 : 0;
    __CPROVER_assert(buf[off + 2] == (v >> 24) && buf[off + 3] == ((v >> 16) & 255) && buf[off + 4] == ((v >> 8) & 255) && buf[off + 5] == (v & 255), "link speed big-endian");
}
void leaf_setCharacteristicsTLV(void) {
    g_u32 = nondet_u32(); size_t off = nondet_u8() % 40; havoc_buf();
    size_t r = setCharacteristicsTLV(buf, off, 0); tlv_is(off, 2, 4, r);
    __CPROVER_assert(buf[off + 2] == ((g_u32 >> 8) & 255) && buf[off + 3] == (g_u32 & 255) && buf[off + 4] == 0 && buf[off + 5] == 0, "characteristics flags in the upper 16 bits, big-endian");
}
void leaf_setWifiRssiTLV(void) {
    g_ok = nondet_int() != 0; g_i8 = nondet_i8(); size_t off = nondet_u8() % 40; havoc_buf();
    size_t r = setWifiRssiTLV(buf, off, 0); tlv_is(off, 13, 4, r);
    int32_t v = g_ok ? (int32_t)g_i8 : 0; uint32_t u = (uint32_t)v;
    __CPROVER_assert(buf[off + 2] == (u >> 24) && buf[off + 3] == ((u >> 16) & 255) && buf[off + 4] == ((u >> 8) & 255) && buf[off + 5] == (u & 255), "signal strength sign-extended, big-endian");
}
